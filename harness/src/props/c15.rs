//! C15 — sessions see one committed state; readers and the writer exclude each other.

use crate::driver::{guard, Cfg, CommitOpts, Db, FailKind, B3, HK, S2};
use crate::gen;
use crate::hist::{CaseInfo, Scratch, Violation};
use crate::iosim::Recorder;
use crate::model::{root_of, MOp, Map, Val};
use crate::reftrie::HasherKind;
use crate::runner::{Check, Ctx, Tier};
use crate::util::{hx8, Key, SplitMix};
use bitvec::prelude::*;
use nomt_core::trie::LeafData;
use proptest::prelude::*;
use serde::{Deserialize, Serialize};
use std::collections::BTreeMap;
use std::sync::atomic::{AtomicBool, AtomicU64, Ordering};
use std::sync::{Arc, Mutex};
use std::time::Duration;

#[derive(Clone, Debug, Serialize, Deserialize, PartialEq, Eq)]
pub struct C15Case {
    pub cfg: Cfg,
    pub seed: u64,
    pub readers: u8,
    pub writers: u8,
    pub iters: u8,
    pub rollbacks: u8,
    pub yield_seed: u64,
    pub nonblocking_share: u8,
    pub overlay_share: u8,
    /// Finish the newer session while the same thread still holds an older one (KF-C15-1 / FX-C15-1; generated since the repair).
    #[serde(default)]
    pub self_deadlock_probe: bool,
}

const STAMPS: usize = 8;

fn stamp_keys(seed: u64) -> Vec<Key> {
    let mut s = SplitMix(seed ^ 0x57a3);
    let mut v: Vec<Key> = (0..STAMPS).map(|_| s.key()).collect();
    // two of them clustered deep so that proofs leave the root page
    let p = v[0];
    v[1][..20].copy_from_slice(&p[..20]);
    v.sort();
    v.dedup();
    v
}

fn stamp_value(version: u64, k: &Key) -> Vec<u8> {
    let mut v = version.to_le_bytes().to_vec();
    v.extend_from_slice(&k[..8]);
    v
}

fn version_of(v: &[u8]) -> u64 {
    u64::from_le_bytes(v[..8].try_into().unwrap())
}

#[derive(Clone, Debug)]
struct Success {
    prev_root: [u8; 32],
    new_root: [u8; 32],
    version: u64,
    extra: Vec<(Key, Option<Vec<u8>>)>,
}

struct Shared<H: HK> {
    db: Db<H>,
    /// version -> root the store has after the commit carrying that version (inserted BEFORE the commit is attempted)
    roots: Mutex<BTreeMap<u64, [u8; 32]>>,
    successes: Mutex<Vec<Success>>,
    failures: AtomicU64,
    deferred: AtomicU64,
    overlapped: AtomicU64,
    shared_sessions: AtomicU64,
    violation: Mutex<Option<String>>,
    stop: AtomicBool,
    writers_done: AtomicU64,
}

impl<H: HK> Shared<H> {
    fn fail(&self, m: String) {
        let mut v = self.violation.lock().unwrap();
        if v.is_none() {
            *v = Some(m);
        }
        self.stop.store(true, Ordering::SeqCst);
    }
}

fn reader<H: HK>(sh: Arc<Shared<H>>, stamps: Vec<Key>, seed: u64, iters: usize) {
    let mut s = SplitMix(seed);
    for _ in 0..iters {
        if sh.stop.load(Ordering::SeqCst) {
            return;
        }
        let sess = match sh.db.begin(&[], false) {
            Ok(s) => s,
            Err(f) => return sh.fail(format!("reader: begin_session failed: {}", f.sig())),
        };
        let prev_root = sess.prev_root().into_inner();
        let mut version: Option<u64> = None;
        for round in 0..3 {
            for k in &stamps {
                let got = match guard("Session::read", || sess.read(*k)) {
                    Ok(v) => v,
                    Err(f) => return sh.fail(format!("reader: {}", f.sig())),
                };
                let Some(val) = got else {
                    return sh.fail(format!("reader: stamp key {} reads as absent", hx8(k)));
                };
                let ver = version_of(&val);
                if val != stamp_value(ver, k) {
                    return sh.fail(format!("reader: stamp key {} holds a torn value", hx8(k)));
                }
                match version {
                    None => version = Some(ver),
                    Some(v0) if v0 != ver => {
                        return sh.fail(format!(
                            "reads through ONE session observed two committed states: stamp version {v0} and then {ver} (round {round})"
                        ))
                    }
                    _ => {}
                }
            }
            if round < 2 {
                match s.below(3) {
                    0 => std::thread::sleep(Duration::from_micros(100 + s.below(2500))),
                    1 => std::thread::yield_now(),
                    _ => {}
                }
            }
        }
        let ver = version.unwrap();
        // the same session used from two more threads at once (Session is Sync): same single state
        if s.below(3) == 0 {
            let sess_ref = &sess;
            let stamps_ref = &stamps;
            let results: Vec<Result<(), String>> = std::thread::scope(|sc| {
                let hs: Vec<_> = (0..2usize)
                    .map(|t| {
                        sc.spawn(move || -> Result<(), String> {
                            for (i, k) in stamps_ref.iter().enumerate() {
                                if i % 2 != t {
                                    continue;
                                }
                                let got = guard("Session::read", || sess_ref.read(*k)).map_err(|f| f.sig())?;
                                let Some(val) = got else { return Err(format!("stamp key {} reads as absent through a shared session", hx8(k))) };
                                if val != stamp_value(ver, k) {
                                    return Err(format!(
                                        "reads through ONE session from two threads observed two committed states: stamp version {ver} on the owning thread, {} on a helper thread",
                                        version_of(&val)
                                    ));
                                }
                                let p = guard("Session::prove", || sess_ref.prove(*k)).map_err(|f| f.sig())?;
                                let vh = H::KIND.hash_value(&val);
                                let ok = p.verify::<H::N>(k.view_bits::<Msb0>(), prev_root).ok().and_then(|v| v.confirm_value(&LeafData { key_path: *k, value_hash: vh }).ok());
                                if ok != Some(true) {
                                    return Err(format!("a proof made on a helper thread through a shared session does not confirm the value read (stamp version {ver})"));
                                }
                            }
                            Ok(())
                        })
                    })
                    .collect();
                hs.into_iter().map(|h| h.join().unwrap_or_else(|_| Err("helper thread panicked".into()))).collect()
            });
            for r in results {
                if let Err(m) = r {
                    return sh.fail(format!("reader: {m}"));
                }
            }
            sh.shared_sessions.fetch_add(1, Ordering::Relaxed);
        }
        // the session's base root is the root of exactly that version
        let want = sh.roots.lock().unwrap().get(&ver).cloned();
        match want {
            Some(r) if r == prev_root => {}
            Some(r) => {
                return sh.fail(format!(
                    "session.prev_root() = {} but the session reads the state of stamp version {ver} whose root is {}",
                    hx8(&prev_root),
                    hx8(&r)
                ))
            }
            None => return sh.fail(format!("reader: observed stamp version {ver} that no writer prepared")),
        }
        // proofs verify against the session root and confirm the values read
        for k in stamps.iter().take(2) {
            let p = match guard("Session::prove", || sess.prove(*k)) {
                Ok(p) => p,
                Err(f) => return sh.fail(format!("reader: {}", f.sig())),
            };
            let vh = H::KIND.hash_value(&stamp_value(ver, k));
            let ok = p
                .verify::<H::N>(k.view_bits::<Msb0>(), prev_root)
                .ok()
                .and_then(|v| v.confirm_value(&LeafData { key_path: *k, value_hash: vh }).ok());
            if ok != Some(true) {
                return sh.fail(format!(
                    "a proof made through a session does not confirm the value read through the same session (stamp version {ver})"
                ));
            }
        }
        drop(sess);
    }
}

fn writer<H: HK>(sh: Arc<Shared<H>>, stamps: Vec<Key>, id: u64, seed: u64, iters: usize, nb_share: u8, ov_share: u8) {
    let mut s = SplitMix(seed);
    for it in 0..iters {
        if sh.stop.load(Ordering::SeqCst) {
            break;
        }
        let version = id * 1_000_000 + it as u64 + 1;
        // prepare a changeset on the current state
        let sess = match sh.db.begin(&[], false) {
            Ok(s) => s,
            Err(f) => return sh.fail(format!("writer: begin_session failed: {}", f.sig())),
        };
        let mut view = Map::new();
        let mut batch: BTreeMap<Key, MOp> = BTreeMap::new();
        for k in &stamps {
            match guard("Session::read", || sess.read(*k)) {
                Ok(Some(v)) => {
                    let vh = H::KIND.hash_value(&v);
                    view.insert(*k, Val { bytes: Arc::new(v), vh });
                }
                Ok(None) => return sh.fail("writer: stamp key absent".into()),
                Err(f) => return sh.fail(f.sig()),
            }
            batch.insert(*k, MOp::ReadThenWrite(Some(Arc::new(stamp_value(version, k)))));
        }
        let mut extra = Vec::new();
        for _ in 0..s.below(6) {
            let k = {
                let mut k = s.key();
                k[0] = (id as u8) << 4 | (k[0] & 0x0f); // writers own disjoint key ranges
                k
            };
            let val = if s.below(4) == 0 { None } else { Some(crate::util::value_bytes(&k, version as u32, s.below(300) as usize)) };
            extra.push((k, val.clone()));
            batch.insert(k, MOp::Write(val.map(Arc::new)));
        }
        let batch: Vec<(Key, MOp)> = batch.into_iter().collect();
        let fin = match sh.db.finish(sess, &view, &batch, &CommitOpts::default()) {
            Ok(f) => f,
            Err(f) => return sh.fail(format!("writer: {}", f.sig())),
        };
        sh.roots.lock().unwrap().insert(version, fin.root);
        let (prev_root, new_root) = (fin.prev_root, fin.root);
        let nonblocking = (s.below(100) as u8) < nb_share;
        let as_overlay = (s.below(100) as u8) < ov_share;
        // commit, retrying deferred non-blocking attempts
        let outcome: Result<bool, crate::driver::Fail> = if as_overlay {
            match crate::driver::overlay_of(fin) {
                Err(f) => Err(f),
                Ok(mut o) => {
                    if nonblocking {
                        let mut res = Ok(false);
                        for _ in 0..2000 {
                            match sh.db.try_commit_overlay(o) {
                                Ok(None) => {
                                    res = Ok(true);
                                    break;
                                }
                                Ok(Some(back)) => {
                                    sh.deferred.fetch_add(1, Ordering::Relaxed);
                                    o = back;
                                    std::thread::sleep(Duration::from_micros(200));
                                    res = Ok(false);
                                    if sh.stop.load(Ordering::SeqCst) {
                                        break;
                                    }
                                    continue;
                                }
                                Err(f) => {
                                    res = Err(f);
                                    break;
                                }
                            }
                        }
                        res
                    } else {
                        sh.db.commit_overlay(o).map(|_| true)
                    }
                }
            }
        } else if nonblocking {
            let mut fs = fin.fs;
            let mut res = Ok(false);
            for _ in 0..2000 {
                match sh.db.try_commit_finished(fs) {
                    Ok(None) => {
                        res = Ok(true);
                        break;
                    }
                    Ok(Some(back)) => {
                        sh.deferred.fetch_add(1, Ordering::Relaxed);
                        fs = back;
                        std::thread::sleep(Duration::from_micros(200));
                        res = Ok(false);
                        if sh.stop.load(Ordering::SeqCst) {
                            break;
                        }
                        continue;
                    }
                    Err(f) => {
                        res = Err(f);
                        break;
                    }
                }
            }
            res
        } else {
            sh.db.commit_finished(fin.fs).map(|_| true)
        };
        match outcome {
            Ok(true) => sh.successes.lock().unwrap().push(Success { prev_root, new_root, version, extra }),
            Ok(false) => {} // gave up retrying a deferred attempt (sessions kept overlapping): nothing committed
            Err(f) if f.kind == FailKind::Panic => return sh.fail(format!("writer: commit panicked: {}", f.msg)),
            Err(_) => {
                sh.failures.fetch_add(1, Ordering::Relaxed);
            }
        }
    }
    sh.writers_done.fetch_add(1, Ordering::SeqCst);
}

fn run_case<H: HK>(case: &C15Case, scratch: &Scratch) -> Result<CaseInfo, Violation> {
    let v = |m: String| Violation { step: 0, msg: m };
    let mut info = CaseInfo::default();
    let rec = Recorder::install();
    rec.unwatch();
    let mut cfg = case.cfg.clone();
    cfg.rollback = true;
    cfg.max_log = 100;
    let dir = scratch.dir(cfg.fs);
    let db = Db::<H>::open(&dir, &cfg).map_err(|f| v(f.sig()))?;
    let stamps = stamp_keys(case.seed);
    // version 0
    let batch: Vec<(Key, MOp)> = stamps.iter().map(|k| (*k, MOp::Write(Some(Arc::new(stamp_value(0, k)))))).collect();
    let (root0, _) = db.commit_batch(&Map::new(), &batch, &CommitOpts::default()).map_err(|f| v(f.sig()))?;
    let sh = Arc::new(Shared {
        db,
        roots: Mutex::new([(0u64, root0)].into_iter().collect()),
        successes: Mutex::new(Vec::new()),
        failures: AtomicU64::new(0),
        deferred: AtomicU64::new(0),
        overlapped: AtomicU64::new(0),
        shared_sessions: AtomicU64::new(0),
        violation: Mutex::new(None),
        stop: AtomicBool::new(false),
        writers_done: AtomicU64::new(0),
    });
    rec.set_yield(true, case.yield_seed);

    // deterministic sub-scenario (b): a non-blocking commit while this thread keeps a session alive.
    // The changeset is finished BEFORE the long-lived session begins: finishing a session while the
    // same thread holds an OLDER session can block forever when warm-up is on (known finding KF-C15-1).
    {
        let sh2 = sh.clone();
        let stamps2 = stamps.clone();
        let probe = case.self_deadlock_probe;
        let (tx, rx) = std::sync::mpsc::channel::<Result<(), String>>();
        std::thread::spawn(move || {
            let r = (|| -> Result<(), String> {
                let k = [0xEEu8; 32];
                let b = vec![(k, MOp::Write(Some(Arc::new(vec![1u8]))))];
                let mut view = Map::new();
                for sk in &stamps2 {
                    let val = stamp_value(0, sk);
                    view.insert(*sk, Val { vh: H::KIND.hash_value(&val), bytes: Arc::new(val) });
                }
                let (s1, fin) = if probe {
                    // older session first, then finish a newer one
                    let s1 = sh2.db.begin(&[], false).map_err(|f| f.sig())?;
                    let s2 = sh2.db.begin(&[], false).map_err(|f| f.sig())?;
                    let fin = sh2.db.finish(s2, &view, &b, &CommitOpts::default()).map_err(|f| f.sig())?;
                    (s1, fin)
                } else {
                    let s2 = sh2.db.begin(&[], false).map_err(|f| f.sig())?;
                    let fin = sh2.db.finish(s2, &view, &b, &CommitOpts::default()).map_err(|f| f.sig())?;
                    let s1 = sh2.db.begin(&[], false).map_err(|f| f.sig())?;
                    (s1, fin)
                };
                let r = match sh2.db.try_commit_finished(fin.fs) {
                    Ok(Some(_back)) => Ok(()),
                    Ok(None) => Err("try_commit_nonblocking committed although another session was alive".to_string()),
                    Err(f) => Err(format!("try_commit_nonblocking with a live session returned an error: {}", f.sig())),
                };
                drop(s1);
                r
            })();
            let _ = tx.send(r);
        });
        match rx.recv_timeout(Duration::from_secs(if probe { 8 } else { 120 })) {
            Ok(Ok(())) => info.bump("deferred_while_session_alive"),
            Ok(Err(m)) => return Err(v(m)),
            Err(_) if probe => {
                return Err(v("[KF-C15-1: Session::finish blocks forever while the same thread keeps an older session alive (warm_up on, every commit worker occupied by a warm-up task)] finish() did not return within 8 s".into()))
            }
            Err(_) => {
                eprintln!("HANG: non-blocking commit scenario did not return within 120s");
                std::process::exit(4);
            }
        }
    }

    // phase A: readers + committing writers
    let mut handles = Vec::new();
    for i in 0..case.readers.max(1) {
        let (sh2, st) = (sh.clone(), stamps.clone());
        let seed = case.seed ^ (0x1000 + i as u64);
        let iters = case.iters as usize * 3;
        handles.push(std::thread::spawn(move || reader(sh2, st, seed, iters)));
    }
    for i in 0..case.writers.max(1) {
        let (sh2, st) = (sh.clone(), stamps.clone());
        let seed = case.seed ^ (0x2000 + i as u64);
        let (iters, nb, ov) = (case.iters as usize, case.nonblocking_share, case.overlay_share);
        handles.push(std::thread::spawn(move || writer(sh2, st, i as u64 + 1, seed, iters, nb, ov)));
    }
    let joined = super::c14_hang_guard("reader / writer threads (commits, sessions)", 120, move || {
        for h in handles {
            let _ = h.join();
        }
    });
    let _ = joined;
    if let Some(m) = sh.violation.lock().unwrap().clone() {
        rec.set_yield(false, 0);
        return Err(v(m));
    }
    // (c) successful commits form one chain from root0 to the final root
    let succ = sh.successes.lock().unwrap().clone();
    let mut by_prev: BTreeMap<[u8; 32], &Success> = BTreeMap::new();
    for s in &succ {
        if s.prev_root == s.new_root {
            continue;
        }
        if let Some(other) = by_prev.insert(s.prev_root, s) {
            rec.set_yield(false, 0);
            return Err(v(format!(
                "two commits based on the same root {} both succeeded (stamp versions {} and {}): a committed batch was lost",
                hx8(&s.prev_root),
                other.version,
                s.version
            )));
        }
    }
    let mut cur = root0;
    let mut chain: Vec<&Success> = Vec::new();
    while let Some(s) = by_prev.get(&cur) {
        chain.push(s);
        cur = s.new_root;
        if chain.len() > succ.len() {
            break;
        }
    }
    if chain.len() != by_prev.len() {
        rec.set_yield(false, 0);
        return Err(v(format!(
            "{} commits succeeded but only {} of them form a chain from the initial root: a commit was accepted on a base that was not the current state",
            by_prev.len(),
            chain.len()
        )));
    }
    if sh.db.root() != cur {
        rec.set_yield(false, 0);
        return Err(v(format!("final root {} is not the end of the chain of successful commits {}", hx8(&sh.db.root()), hx8(&cur))));
    }
    // final values = fold of exactly those batches
    let mut model: BTreeMap<Key, Vec<u8>> = BTreeMap::new();
    let last_ver = chain.last().map(|s| s.version).unwrap_or(0);
    for k in &stamps {
        model.insert(*k, stamp_value(last_ver, k));
    }
    for s in &chain {
        for (k, val) in &s.extra {
            match val {
                Some(x) => {
                    model.insert(*k, x.clone());
                }
                None => {
                    model.remove(k);
                }
            }
        }
    }
    for (k, want) in &model {
        let got = sh.db.read(k).map_err(|f| v(f.sig()))?;
        if got.as_ref() != Some(want) {
            rec.set_yield(false, 0);
            return Err(v(format!("after the run key {} does not hold the value of the chain of successful commits (lost or duplicated batch)", hx8(k))));
        }
    }
    let mut m2 = Map::new();
    for (k, val) in &model {
        m2.insert(*k, Val { vh: H::KIND.hash_value(val), bytes: Arc::new(val.clone()) });
    }
    if root_of(H::KIND, &m2) != sh.db.root() {
        rec.set_yield(false, 0);
        return Err(v("final root is not the reference root of the fold of the successful commits".into()));
    }
    info.add("commits_succeeded", chain.len() as u64);
    info.add("commits_rejected", sh.failures.load(Ordering::Relaxed));
    info.add("nonblocking_deferred", sh.deferred.load(Ordering::Relaxed));
    info.add("sessions_used_from_three_threads", sh.shared_sessions.load(Ordering::Relaxed));

    // phase B: readers + one rollback thread
    let n_rb = (case.rollbacks as usize).min(chain.len());
    if n_rb > 0 {
        let mut handles = Vec::new();
        for i in 0..case.readers.max(1) {
            let (sh2, st) = (sh.clone(), stamps.clone());
            let seed = case.seed ^ (0x3000 + i as u64);
            let iters = case.iters as usize * 2;
            handles.push(std::thread::spawn(move || reader(sh2, st, seed, iters)));
        }
        let sh2 = sh.clone();
        handles.push(std::thread::spawn(move || {
            for _ in 0..n_rb {
                std::thread::sleep(Duration::from_micros(300));
                if let Err(f) = sh2.db.rollback(1) {
                    sh2.fail(format!("rollback(1) with retained commits failed: {}", f.sig()));
                    return;
                }
            }
        }));
        super::c14_hang_guard("reader threads + rollback", 120, move || {
            for h in handles {
                let _ = h.join();
            }
        });
        if let Some(m) = sh.violation.lock().unwrap().clone() {
            rec.set_yield(false, 0);
            return Err(v(m));
        }
        let want = if chain.len() - n_rb == 0 { root0 } else { chain[chain.len() - n_rb - 1].new_root };
        if sh.db.root() != want {
            rec.set_yield(false, 0);
            return Err(v(format!("after {n_rb} rollbacks the root is not the root {n_rb} successful commits ago")));
        }
        info.add("rollbacks_concurrent_with_readers", n_rb as u64);
    }
    // phase C: a rollback racing a blocking commit, both queued behind a live session. The two must serialise:
    // commit then rollback (the commit is accepted and undone again: the state is the one before) or rollback then
    // commit (the changeset's base is gone: refused, the state is the one a commit earlier). Afterwards rollback(1)
    // must restore what that order leaves in the log.
    {
        // roots[i] = root after i commits (the store was created empty: all-zero root, then version 0, then the chain)
        let mut roots: Vec<[u8; 32]> = vec![[0u8; 32], root0];
        roots.extend(chain.iter().map(|s| s.new_root));
        let p = chain.len() - n_rb + 1;
        let cur = sh.db.root();
        if p >= 1 && cur == roots[p] && roots[p - 1] != cur {
            let prev = roots[p - 1];
            let k = [0xDDu8; 32];
            let b = vec![(k, MOp::Write(Some(Arc::new(vec![2u8, 3]))))];
            let s0 = sh.db.begin(&[], false).map_err(|f| v(f.sig()))?;
            let fin = sh.db.finish(s0, &Map::new(), &b, &CommitOpts::default()).map_err(|f| v(f.sig()))?;
            let new_root = fin.root;
            let live = sh.db.begin(&[], false).map_err(|f| v(f.sig()))?;
            let commit_first = case.seed & 1 == 0;
            let gap = Duration::from_micros(200 + (case.seed >> 8) % 3000);
            let (shw, shr) = (sh.clone(), sh.clone());
            let fs = fin.fs;
            let hw = std::thread::spawn(move || {
                if !commit_first {
                    std::thread::sleep(gap);
                }
                shw.db.commit_finished(fs).map(|_| ()).map_err(|f| f.sig())
            });
            let hr = std::thread::spawn(move || {
                if commit_first {
                    std::thread::sleep(gap);
                }
                shr.db.rollback(1).map_err(|f| f.sig())
            });
            std::thread::sleep(gap * 2 + Duration::from_millis(2));
            drop(live);
            let (rw, rr) = super::c14_hang_guard("a commit and a rollback queued behind a live session", 120, move || (hw.join(), hr.join()));
            let (rw, rr) = match (rw, rr) {
                (Ok(a), Ok(b)) => (a, b),
                _ => {
                    rec.set_yield(false, 0);
                    return Err(v("a commit / rollback thread panicked outside the guarded call".into()));
                }
            };
            let fin_root = sh.db.root();
            let what = format!(
                "a blocking commit and rollback(1) queued behind a live session ({} started first; commit: {}, rollback: {})",
                if commit_first { "commit" } else { "rollback" },
                if rw.is_ok() { "accepted".to_string() } else { format!("refused: {}", rw.clone().unwrap_err()) },
                if rr.is_ok() { "done".to_string() } else { format!("failed: {}", rr.clone().unwrap_err()) },
            );
            if let Err(e) = &rr {
                rec.set_yield(false, 0);
                return Err(v(format!("{what}: rollback(1) with {p} retained commits failed: {e}")));
            }
            // commit -> rollback leaves `cur`; rollback -> (refused) commit leaves `prev`
            let (want, order) = if rw.is_ok() { (cur, "commit, then rollback") } else { (prev, "rollback, then the refused commit") };
            if fin_root != want {
                rec.set_yield(false, 0);
                return Err(v(format!(
                    "{what}: the final root {} is not the root {} of the only serial order with this outcome ({order}); root before: {}, a commit earlier: {}, root of the racing changeset: {}",
                    hx8(&fin_root),
                    hx8(&want),
                    hx8(&cur),
                    hx8(&prev),
                    hx8(&new_root)
                )));
            }
            // what the log holds afterwards
            let left = if rw.is_ok() { p } else { p - 1 };
            let r2 = sh.db.rollback(1);
            if left >= 1 {
                if let Err(f) = r2 {
                    rec.set_yield(false, 0);
                    return Err(v(format!("{what}: afterwards rollback(1) with {left} retained commits failed: {}", f.sig())));
                }
                if sh.db.root() != roots[left - 1] {
                    rec.set_yield(false, 0);
                    return Err(v(format!("{what}: afterwards rollback(1) does not restore the state one commit before ({order})")));
                }
            } else if r2.is_ok() {
                rec.set_yield(false, 0);
                return Err(v(format!("{what}: afterwards rollback(1) succeeded although no commit was left in the log")));
            }
            info.bump("rollback_racing_commit");
            if rw.is_ok() {
                info.bump("rollback_racing_commit_commit_won");
            }
        }
    }
    rec.set_yield(false, 0);
    let _ = sh.overlapped.load(Ordering::Relaxed);
    let sh = Arc::try_unwrap(sh).map_err(|_| v("INFRA: shared state still referenced".into()))?;
    sh.db.close().map_err(|f| v(f.sig()))?;
    crate::hist::rm(&dir);
    let l = |k: &str| info.labels.get(k).copied().unwrap_or(0);
    info.nontrivial = l("commits_succeeded") >= 2 && (l("commits_rejected") + l("nonblocking_deferred")) >= 1;
    Ok(info)
}

pub struct C15;
impl Check for C15 {
    type Case = C15Case;
    const ID: &'static str = "C15";
    const LEVEL: &'static str = "exploration";
    fn rule() -> String {
        "generated thread programs on one handle: R in 1..4 reader threads (begin session; read a stamp set of 8 keys three times with sleeps / yields in between; prove 2 of them; in a third of the sessions two more threads read and prove through the SAME session at once; drop) and W in 1..3 \
         writer threads (begin session, read, finish a changeset rewriting the whole stamp set with a fresh version id plus random keys, then commit - blocking, or non-blocking with retry, as session \
         changeset or overlay), 4..24 iterations each, followed by a phase with readers and a thread rolling back k commits, and by a blocking commit and a rollback(1) started on two threads (either first) while a live session makes both wait - they must serialise: accepted-and-undone or rolled-back-and-refused, and the rollback log must hold what that order leaves; schedules are perturbed by seeded yields / sleeps at nomt's lock acquisition \
         points (hook). Oracle: (a) inside one session all stamp reads carry one version id, session.prev_root() is the root of exactly that version, proofs verify against it and confirm the values \
         read; (b) a non-blocking commit attempted while the same thread keeps a session alive hands the changeset back; (c) the successful commits form ONE chain initial root -> ... -> final root \
         (no two successes share a base root, no success off the chain), the final values / reference root equal the fold of exactly those batches, every loser got Err; after k rollbacks the root is \
         the one k successes ago; (d) no thread hangs (120 s guard). Non-trivial = >= 2 successful commits and >= 1 rejected or deferred attempt; distinct = distinct serialized case".into()
    }
    fn assumptions() -> Vec<String> {
        vec!["interleavings are sampled: the harness does not own nomt's scheduler; a defect needing one precise three-way timing can be missed".into()]
    }
    fn cases(tier: Tier) -> u32 {
        tier.pick(960, 8000)
    }
    fn strategy(tier: Tier) -> BoxedStrategy<C15Case> {
        (
            gen::cfg_strategy(Just(true).boxed(), 0),
            any::<u64>(),
            1u8..=4,
            1u8..=3,
            tier.pick(4u8..=16, 8u8..=40),
            0u8..=3,
            any::<u64>(),
            prop::sample::select(vec![0u8, 30, 60, 100]),
            prop::sample::select(vec![0u8, 30, 60]),
            any::<bool>(),
        )
            .prop_map(|(cfg, seed, readers, writers, iters, rollbacks, yield_seed, nonblocking_share, overlay_share, older_first)| C15Case {
                cfg,
                seed,
                readers,
                writers,
                iters,
                rollbacks,
                yield_seed,
                nonblocking_share,
                overlay_share,
                // since FX-C15-1: in half of the cases the deterministic sub-scenario finishes a session while the
                // same thread keeps an OLDER session alive (used to block forever with warm_up on)
                self_deadlock_probe: older_first,
            })
            .boxed()
    }
    fn run(case: &C15Case, ctx: &Ctx) -> Result<CaseInfo, Violation> {
        match case.cfg.hasher {
            HasherKind::Blake3 | HasherKind::TailLabel => run_case::<B3>(case, &ctx.scratch),
            HasherKind::Sha2 => run_case::<S2>(case, &ctx.scratch),
        }
    }
    fn brief(case: &C15Case) -> String {
        format!(
            "cfg[{}] readers={} writers={} iters={} rollbacks={} nonblocking%={} overlay%={}",
            case.cfg.brief(),
            case.readers,
            case.writers,
            case.iters,
            case.rollbacks,
            case.nonblocking_share,
            case.overlay_share
        )
    }
    fn max_shrink_iters(_t: Tier) -> u32 {
        60
    }
}
