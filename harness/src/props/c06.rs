//! C06 — a session witness lets a stateless verifier replay the session.

use crate::hist::{dispatch, history_strategy, CaseInfo, HistParams, History, Obs, Violation};
use crate::runner::{Check, Ctx, Tier};
use proptest::strategy::{BoxedStrategy, Strategy};

pub struct C06;

impl Check for C06 {
    type Case = History;
    const ID: &'static str = "C06";
    const LEVEL: &'static str = "exploration";
    fn rule() -> String {
        "proptest histories whose session commits all run with WitnessMode::read_write under random configurations (commit_concurrency 1..64, warm-up on/off \
         with random warmed subsets); batches mix Read/Write/Delete/ReadThenWrite over present and absent keys, clustered so that several ops share one terminal. \
         Oracle = the stateless verifier of examples/witness_verification plus completeness: every WitnessedPath verifies against prev_root; exactly one truthful \
         WitnessedRead per read key, confirmed by its path; exactly one WitnessedWrite per written key with the batch's value hash; verify_update over the writes \
         grouped by path equals FinishedSession::root and the reference root of the post state. Non-trivial = a witnessed commit with >= 1 write and >= 2 paths; \
         distinct = distinct serialized case".into()
    }
    fn cases(tier: Tier) -> u32 {
        tier.pick(6400, 48000)
    }
    fn strategy(tier: Tier) -> BoxedStrategy<History> {
        history_strategy(HistParams {
            max_steps: tier.pick(8, 16),
            max_entries: tier.pick(40, 100),
            bulk_n: tier.pick(300, 2000),
            big_values: false,
            rollback: 0,
            rollback_weight: 0,
            reopen_weight: 8,
            overlay_weight: 0,
            witness_weight: 1.0,
            ext4_weight: 0,
        })
        .boxed()
    }
    fn run(case: &History, ctx: &Ctx) -> Result<CaseInfo, Violation> {
        let obs = Obs {
            witness: true,
            root: true,
            ..Default::default()
        };
        let mut info = dispatch(case, &obs, &ctx.scratch, 4 << 20)?;
        let l = |k: &str| info.labels.get(k).copied().unwrap_or(0);
        info.nontrivial = info.discarded.is_none() && l("witness_nontrivial") >= 1;
        Ok(info)
    }
    fn brief(case: &History) -> String {
        case.brief()
    }
}
