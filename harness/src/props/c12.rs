//! C12 — a rejected or deferred commit has no effect at all.

use crate::driver::{overlay_of, CommitOpts, Db, FailKind, B3, HK, S2};
use crate::gen::{self, BatchSpec};
use crate::hist::{self, history_strategy, CaseInfo, HistParams, History, Obs, Runner, StepOutcome, Violation};
use crate::model::{root_of, MOp, Map};
use crate::reftrie::HasherKind;
use crate::runner::{Check, Ctx, Tier};
use crate::util::{hx8, Key};
use nomt::{FinishedSession, Overlay};
use proptest::prelude::*;
use serde::{Deserialize, Serialize};

#[derive(Clone, Debug, Serialize, Deserialize, PartialEq, Eq)]
pub struct ChangeSpec {
    pub batch: BatchSpec,
    pub overlay: bool,
    /// an overlay prepared on top of the previous changeset (if that is an overlay too) instead of on the base: it
    /// may be committed exactly when its parent is the most recently accepted commit
    #[serde(default)]
    pub child: bool,
}

#[derive(Clone, Copy, Debug, Serialize, Deserialize, PartialEq, Eq)]
pub enum Flavour {
    Blocking,
    NonBlocking,
    /// non-blocking while the harness keeps another session alive: must hand the changeset back
    NonBlockingLive,
}

#[derive(Clone, Debug, Serialize, Deserialize, PartialEq, Eq)]
pub enum Act {
    Attempt { cs: u8, flavour: Flavour },
    Rollback(u8),
    /// Two blocking commits of different changesets started on two threads while the harness keeps a
    /// session alive for `hold_ms` (both wait for write access), then released: at most one may win.
    Concurrent { a: u8, b: u8, hold_ms: u8 },
}

#[derive(Clone, Debug, Serialize, Deserialize, PartialEq, Eq)]
pub struct C12Case {
    pub base: History,
    pub changes: Vec<ChangeSpec>,
    pub acts: Vec<Act>,
    pub reopen_before_probe: bool,
    /// Attempt changesets whose base root is current again only because an intervening commit was
    /// rolled back (either outcome permitted, must be exact). Was false while KF-C12-1 was open; true in
    /// generated cases since its repair (FX-C12-2).
    #[serde(default)]
    pub allow_gray: bool,
}

enum Prepared {
    Fs(FinishedSession),
    Ov(Overlay),
}

struct Change {
    prepared: Option<Prepared>,
    batch: Vec<(Key, MOp)>,
    base_root: [u8; 32],
    has_delta_writes: bool,
    /// index of the overlay this one was prepared on top of
    parent: Option<usize>,
    /// the state this changeset produces
    view: Map,
}

fn v(step: usize, m: impl Into<String>) -> Violation {
    Violation { step, msg: m.into() }
}

fn same_state<H: HK>(db: &Db<H>, map: &Map, root: [u8; 32], seqn: u32, step: usize, after: &str) -> Result<(), Violation> {
    if db.root() != root {
        let keys: Vec<Key> = map.keys().cloned().collect();
        let detail = match hist::check_values(db, map, &keys, false, step) {
            Ok(()) => "all model keys read back correctly".to_string(),
            Err(e) => e.msg,
        };
        return Err(v(step, format!("{after}: root changed from {} to {} ({detail})", hx8(&root), hx8(&db.root()))));
    }
    if db.seqn() != seqn {
        return Err(v(step, format!("{after}: sync_seqn changed from {seqn} to {}", db.seqn())));
    }
    if db.nomt.is_poisoned() {
        return Err(v(step, format!("{after}: the handle is poisoned")));
    }
    let keys: Vec<Key> = map.keys().cloned().collect();
    hist::check_values(db, map, &keys, false, step).map_err(|e| v(step, format!("{after}: {}", e.msg)))?;
    let d = hist::decode_check::<H>(&db.dir, map).map_err(|m| v(step, format!("{after}: {m}")))?;
    let occ = db.nomt.hash_table_utilization().occupied;
    if occ != d.ht_full {
        return Err(v(step, format!("{after}: hash_table_utilization().occupied = {occ} but {} buckets are full on disk", d.ht_full)));
    }
    Ok(())
}

fn run_case<H: HK>(case: &C12Case, ctx: &Ctx) -> Result<CaseInfo, Violation> {
    let mut base = case.base.clone();
    base.cfg.rollback = true;
    let obs = Obs { root: true, ..Default::default() };
    let mut r = Runner::<H>::new(&base, &obs, &ctx.scratch, 1 << 20)?;
    for (i, st) in base.steps.iter().enumerate() {
        match r.step(i, st)? {
            StepOutcome::Done => {}
            StepOutcome::Discard(w) => {
                let mut info = std::mem::take(&mut r.info);
                info.discarded = Some(w);
                return Ok(info);
            }
        }
    }
    let n0 = base.steps.len();
    let mut info = std::mem::take(&mut r.info);
    // prepare all competing changesets on the same base
    let mut changes: Vec<Change> = Vec::new();
    let mut budget = gen::Budget { left: 1 << 20 };
    for (j, cs) in case.changes.iter().enumerate() {
        let parent = if cs.overlay && cs.child && j > 0 && matches!(changes[j - 1].prepared, Some(Prepared::Ov(_))) { Some(j - 1) } else { None };
        let mut chain: Vec<usize> = Vec::new();
        let mut cur = parent;
        while let Some(p) = cur {
            chain.push(p);
            cur = changes[p].parent;
        }
        let base_view: Map = match parent {
            Some(p) => changes[p].view.clone(),
            None => r.model.cur.clone(),
        };
        let batch = gen::resolve_batch(base.salt ^ (j as u64 + 1), &cs.batch, &base_view, 5000 + j as u32, &mut budget);
        let fin = {
            let refs: Vec<&Overlay> = chain
                .iter()
                .map(|i| match changes[*i].prepared.as_ref() {
                    Some(Prepared::Ov(o)) => o,
                    _ => unreachable!(),
                })
                .collect();
            let sess = r.db().begin(&refs, false).map_err(|f| v(n0, format!("session on a complete live overlay chain refused: {}", f.sig())))?;
            r.db().finish(sess, &base_view, &batch, &CommitOpts::default()).map_err(|f| v(n0, f.sig()))?
        };
        let base_root = fin.prev_root;
        if base_root != root_of(H::KIND, &base_view) {
            return Err(v(n0, format!("a session on a chain of {} overlays reports a previous root that is not the root of its parent", chain.len())));
        }
        let view = crate::model::apply(H::KIND, &base_view, &batch);
        if parent.is_some() {
            info.bump("child_overlays_prepared");
        }
        let has_delta_writes = batch.iter().any(|(_, op)| op.is_write());
        let prepared = if cs.overlay {
            Prepared::Ov(overlay_of(fin).map_err(|f| v(n0, f.sig()))?)
        } else {
            Prepared::Fs(fin.fs)
        };
        changes.push(Change {
            prepared: Some(prepared),
            batch,
            base_root,
            has_delta_writes,
            parent,
            view,
        });
    }
    // attempts
    let mut intervening = false; // an accepted commit / rollback happened since the changesets were prepared
    let mut gray_accepted = false;
    // the changeset whose acceptance was the most recent state-changing event (None after a rollback / a concurrent pair)
    let mut last_accept: Option<usize> = None;
    let mut refused_since_accept = false;
    let tag = |gray: bool, v: Violation| -> Violation {
        if gray {
            Violation {
                step: v.step,
                msg: format!("[KF-C12-1: a changeset prepared before an intervening commit was accepted after a rollback restored its base root] {}", v.msg),
            }
        } else {
            v
        }
    };
    for (ai, act) in case.acts.iter().enumerate() {
        let step = n0 + ai;
        let cur_root = root_of(H::KIND, &r.model.cur);
        let (pre_map, pre_seqn) = (r.model.cur.clone(), r.model.seqn);
        match act {
            Act::Rollback(n) => {
                let n = (*n as usize).min(r.model.guaranteed);
                if n == 0 {
                    continue;
                }
                r.db().rollback(n).map_err(|f| v(step, format!("rollback({n}) within the retained depth failed: {}", f.sig())))?;
                r.model.rollback_apply(n);
                intervening = true;
                last_accept = None;
                info.bump("rollbacks_between");
                same_state(r.db(), &r.model.cur, root_of(H::KIND, &r.model.cur), r.model.seqn, step, "after rollback").map_err(|e| tag(gray_accepted, e))?;
            }
            Act::Concurrent { a, b, hold_ms } => {
                if changes.len() < 2 {
                    continue;
                }
                let ia = *a as usize % changes.len();
                let mut ib = *b as usize % changes.len();
                if ib == ia {
                    ib = (ia + 1) % changes.len();
                }
                if changes[ia].prepared.is_none() || changes[ib].prepared.is_none() {
                    continue;
                }
                if changes[ia].parent.is_some() || changes[ib].parent.is_some() {
                    // the two-order model below judges by base root only
                    info.bump("concurrent_pairs_skipped_child_overlay");
                    continue;
                }
                let valid = [changes[ia].base_root == cur_root, changes[ib].base_root == cur_root];
                if (valid[0] || valid[1]) && intervening {
                    // gray zone (base root current again only because something was committed and undone): either
                    // outcome is permitted per changeset, which the two-order model below does not express
                    info.bump("concurrent_pairs_skipped_in_gray_zone");
                    continue;
                }
                let pa = changes[ia].prepared.take().unwrap();
                let pb = changes[ib].prepared.take().unwrap();
                let live = r.db().begin(&[], false).map_err(|f| v(step, f.sig()))?;
                let db = r.db();
                let commit = |p: Prepared| match p {
                    Prepared::Fs(fs) => db.commit_finished(fs),
                    Prepared::Ov(o) => db.commit_overlay(o),
                };
                let (ra, rb) = std::thread::scope(|sc| {
                    let ha = sc.spawn(|| commit(pa));
                    let hb = sc.spawn(|| commit(pb));
                    std::thread::sleep(std::time::Duration::from_millis(1 + *hold_ms as u64 % 20));
                    drop(live);
                    (ha.join(), hb.join())
                });
                let (ra, rb) = match (ra, rb) {
                    (Ok(x), Ok(y)) => (x, y),
                    _ => return Err(v(step, "a committing thread panicked outside the guarded call")),
                };
                for r0 in [&ra, &rb] {
                    if let Err(f) = r0 {
                        if f.kind == FailKind::Panic {
                            return Err(v(step, format!("one of two concurrent blocking commits panicked: {}", f.msg)));
                        }
                    }
                }
                info.bump("concurrent_pairs");
                let what = format!("two concurrent blocking commits of changesets #{ia} / #{ib}");
                // the two commits serialise in one of two orders; the observed outcome must be the one the
                // model gives for at least one of them (a commit that does not change the root leaves the
                // other changeset valid)
                let got = (ra.is_ok(), rb.is_ok());
                let mut matched: Option<Map> = None;
                let mut expect = Vec::new();
                for order in [[ia, ib], [ib, ia]] {
                    let mut m = r.model.cur.clone();
                    let mut acc = [false, false];
                    for (pos, ci) in order.iter().enumerate() {
                        if changes[*ci].base_root == root_of(H::KIND, &m) {
                            m = crate::model::apply(H::KIND, &m, &changes[*ci].batch);
                            acc[pos] = true;
                        }
                    }
                    let as_ab = if order[0] == ia { (acc[0], acc[1]) } else { (acc[1], acc[0]) };
                    expect.push(as_ab);
                    if as_ab == got && matched.is_none() {
                        matched = Some(m);
                    }
                }
                let Some(_after) = matched else {
                    return Err(v(
                        step,
                        format!(
                            "{what} (prepared on the same base, started while a session made both wait): outcome (accepted #{ia}: {}, accepted #{ib}: {}) is not possible in either serial order (model: {:?} or {:?}) - a changeset was accepted although its base was no longer the current state, or refused although it was",
                            got.0, got.1, expect[0], expect[1]
                        ),
                    ));
                };
                // replay the accepted ones on the model in the matching order
                let order = if expect[0] == got { [ia, ib] } else { [ib, ia] };
                for ci in order {
                    let ok = if ci == ia { got.0 } else { got.1 };
                    if ok {
                        r.model.commit(&changes[ci].batch);
                        intervening = true;
                        last_accept = None;
                        info.bump("accepted");
                    } else {
                        info.bump("rejected");
                        if changes[ci].has_delta_writes {
                            info.bump("rejected_with_delta");
                        }
                    }
                }
                if got.0 != got.1 {
                    info.bump("concurrent_pairs_one_winner");
                }
                same_state(r.db(), &r.model.cur, root_of(H::KIND, &r.model.cur), r.model.seqn, step, &format!("after {what} (accepted: {got:?})"))?;
            }
            Act::Attempt { cs, flavour } => {
                if changes.is_empty() {
                    continue;
                }
                let ci = *cs as usize % changes.len();
                let Some(prep) = changes[ci].prepared.take() else {
                    continue;
                };
                // a changeset prepared on the store: valid iff its base root is the current root (gray if that is so
                // again only after something was committed and undone). An overlay prepared on a parent overlay:
                // certainly valid iff the acceptance of that parent was the most recent state-changing event - refused
                // and deferred attempts in between do not count -, certainly invalid iff the roots differ
                let valid = changes[ci].base_root == cur_root;
                let gray = match changes[ci].parent {
                    None => valid && intervening,
                    Some(p) => valid && last_accept != Some(p),
                };
                if changes[ci].parent.is_some() {
                    info.bump("child_overlay_attempts");
                    if valid && !gray && refused_since_accept {
                        info.bump("child_overlay_attempts_after_parent_then_refused_attempt");
                    }
                }
                if gray && !case.allow_gray {
                    // only when a replay file asks for it (allow_gray = false)
                    changes[ci].prepared = Some(prep);
                    info.bump("excluded_kf_c12_1_gray_zone_attempts");
                    continue;
                }
                let live = match flavour {
                    Flavour::NonBlockingLive => Some(r.db().begin(&[], false).map_err(|f| v(step, f.sig()))?),
                    _ => None,
                };
                // outcome: Ok(None) committed, Ok(Some(back)) handed back, Err
                let outcome: Result<Option<Prepared>, crate::driver::Fail> = match (prep, flavour) {
                    (Prepared::Fs(fs), Flavour::Blocking) => r.db().commit_finished(fs).map(|_| None),
                    (Prepared::Fs(fs), _) => r.db().try_commit_finished(fs).map(|o| o.map(Prepared::Fs)),
                    (Prepared::Ov(o), Flavour::Blocking) => r.db().commit_overlay(o).map(|_| None),
                    (Prepared::Ov(o), _) => r.db().try_commit_overlay(o).map(|o| o.map(Prepared::Ov)),
                };
                drop(live);
                let what = format!(
                    "{} commit of {} #{ci} (base {})",
                    match flavour {
                        Flavour::Blocking => "blocking",
                        Flavour::NonBlocking => "non-blocking",
                        Flavour::NonBlockingLive => "non-blocking (another session alive)",
                    },
                    match (case.changes[ci].overlay, changes[ci].parent) {
                        (_, Some(p)) => format!("overlay (child of overlay #{p}{})", if last_accept == Some(p) { ", the most recently accepted commit" } else { "" }),
                        (true, None) => "overlay".to_string(),
                        (false, _) => "session changeset".to_string(),
                    },
                    if valid { "current" } else { "stale" }
                );
                match (outcome, flavour) {
                    (Err(f), _) if f.kind == FailKind::Panic => return Err(v(step, format!("{what} panicked: {}", f.msg))),
                    (Ok(Some(back)), Flavour::NonBlockingLive) => {
                        changes[ci].prepared = Some(back);
                        refused_since_accept = true;
                        info.bump("deferred");
                        if changes[ci].has_delta_writes {
                            info.bump("deferred_with_delta");
                        }
                        same_state(r.db(), &pre_map, cur_root, pre_seqn, step, &format!("after the deferred {what}"))?;
                    }
                    (Ok(None), Flavour::NonBlockingLive) => return Err(v(step, format!("{what} committed although another session was alive"))),
                    (Err(f), Flavour::NonBlockingLive) if !(changes[ci].parent.is_some() && (!valid || gray)) => {
                        // (an overlay whose parent is not the last accepted commit is refused before the lock is tried:
                        // a rejection like any other, handled below)
                        return Err(v(step, format!("{what} returned an error instead of handing the changeset back: {}", f.sig())))
                    }
                    (Ok(Some(_)), _) => return Err(v(step, format!("{what} handed the changeset back although no session was alive"))),
                    (Ok(None), _) => {
                        if !valid {
                            return Err(v(step, format!("{what} was accepted although its base is no longer the current state")));
                        }
                        r.model.commit(&changes[ci].batch);
                        intervening = true;
                        last_accept = Some(ci);
                        refused_since_accept = false;
                        if gray {
                            gray_accepted = true;
                        }
                        info.bump("accepted");
                        same_state(r.db(), &r.model.cur, root_of(H::KIND, &r.model.cur), r.model.seqn, step, &format!("after the accepted {what}")).map_err(|e| tag(gray_accepted, e))?;
                    }
                    (Err(f), _) => {
                        if valid && !gray {
                            return Err(v(step, format!("{what} was rejected although its base is the current state: {}", f.sig())));
                        }
                        info.bump("rejected");
                        refused_since_accept = true;
                        if changes[ci].has_delta_writes {
                            info.bump("rejected_with_delta");
                        }
                        same_state(r.db(), &pre_map, cur_root, pre_seqn, step, &format!("after the rejected {what}"))?;
                    }
                }
            }
        }
    }
    if std::env::var_os("VERIF_DEBUG").is_some() {
        eprintln!("ROOT cur {}", hx8(&root_of(H::KIND, &r.model.cur)));
        for (i, sn) in r.model.snaps.iter().enumerate() {
            eprintln!("ROOT snap{i} {} ({} keys)", hx8(&root_of(H::KIND, sn)), sn.len());
        }
        let b = r.model.snaps.last().cloned().unwrap_or_default();
        for (i, c) in changes.iter().enumerate() {
            let m = crate::model::apply(H::KIND, &b, &c.batch);
            eprintln!("ROOT last-snap+cs{i} {} ", hx8(&root_of(H::KIND, &m)));
        }
    }
    drop(changes);
    // the rollback history is judged behaviourally: rollback(1) repeatedly restores the model snapshots
    let step = n0 + case.acts.len();
    if std::env::var_os("VERIF_DEBUG").is_some() {
        for e in std::fs::read_dir(&r.dir).unwrap() {
            let e = e.unwrap();
            eprintln!("DIR {:?} {}", e.file_name(), e.metadata().unwrap().len());
        }
        let meta = std::fs::read(r.dir.join("meta")).unwrap();
        eprintln!("META start {} end {} seqn {}", u64::from_le_bytes(meta[48..56].try_into().unwrap()), u64::from_le_bytes(meta[56..64].try_into().unwrap()), u32::from_le_bytes(meta[24..28].try_into().unwrap()));
        for e in std::fs::read_dir(&r.dir).unwrap() {
            let e = e.unwrap();
            if e.file_name().to_string_lossy().starts_with("rollback") {
                let b = std::fs::read(e.path()).unwrap();
                let mut off = 0;
                while off + 12 <= b.len() {
                    let len = u32::from_le_bytes(b[off..off + 4].try_into().unwrap());
                    let id = u64::from_le_bytes(b[off + 4..off + 12].try_into().unwrap());
                    eprintln!("  record at {off}: len {len} id {id}");
                    off += ((12 + len as usize + 4095) / 4096) * 4096;
                    if len == 0 && id == 0 { break; }
                }
            }
        }
    }
    if case.reopen_before_probe {
        let cfg = base.cfg.clone();
        r.step(step, &hist::Step::Reopen(cfg)).map_err(|e| tag(gray_accepted, e))?;
    }
    let mut probes = 0;
    while r.model.guaranteed >= 1 && probes < 6 {
        r.db()
            .rollback(1)
            .map_err(|f| tag(gray_accepted, v(step, format!("rollback probe: rollback(1) with {} retained commits failed: {}", r.model.guaranteed, f.sig()))))?;
        r.model.rollback_apply(1);
        probes += 1;
        same_state(
            r.db(),
            &r.model.cur,
            root_of(H::KIND, &r.model.cur),
            r.model.seqn,
            step,
            &format!("rollback probe #{probes} (what later rollbacks restore{})", if case.reopen_before_probe { ", after reopen" } else { "" }),
        )
        .map_err(|e| tag(gray_accepted, e))?;
    }
    // one more: beyond what exists must fail
    if r.model.snaps.is_empty() {
        if r.db().rollback(1).is_ok() {
            return Err(v(step, "rollback probe: the log serves one more rollback than commits were accepted"));
        }
    }
    info.add("rollback_probes", probes);
    let l = |k: &str| info.labels.get(k).copied().unwrap_or(0);
    info.nontrivial = (l("rejected_with_delta") + l("deferred_with_delta")) >= 1 && probes >= 1;
    r.finish()?;
    Ok(info)
}

pub struct C12;
impl Check for C12 {
    type Case = C12Case;
    const ID: &'static str = "C12";
    const LEVEL: &'static str = "exploration";
    fn rule() -> String {
        "a base state (proptest history of 1..4 commits, rollback enabled, small log limits and rollback segments) and 2..4 competing changesets prepared on it (finished sessions and \
         overlays, each carrying a reverse delta; 40% of the overlays are CHILD overlays prepared on top of the previous overlay changeset - certainly valid exactly when the acceptance of their parent was the most recent state-changing event, refused and deferred attempts in between not counting; one case in five forces parent accepted -> attempts with the stale rest -> child), then a generated sequence of acts: commit attempts in any order and flavour (blocking; non-blocking; non-blocking while the harness keeps \
         another session alive, later retried), PAIRS of blocking commits started on two threads while a live session makes both wait (at most one may win, the other must be refused), and rollback(n) in between (which can make a stale changeset current again). Oracle: an attempt succeeds iff its base root equals the current \
         root, otherwise Err; with a live session the changeset is handed back; after EVERY rejected / deferred attempt root, seqn, poison flag and all values are as before; finally (on the \
         live handle or after a reopen) rollback(1) is applied repeatedly and must restore exactly the model's snapshots - i.e. the rollback history contains exactly the accepted commits - and \
         one rollback more than accepted commits must fail. Non-trivial = >= 1 rejected or deferred attempt whose changeset carries writes, followed by >= 1 rollback probe; distinct = distinct serialized case".into()
    }
    fn cases(tier: Tier) -> u32 {
        tier.pick(4800, 48000)
    }
    fn strategy(tier: Tier) -> BoxedStrategy<C12Case> {
        let batch = || gen::batch_strategy(tier.pick(10, 24), tier.pick(30, 200), gen::vlen_strategy().boxed());
        (
            history_strategy(HistParams {
                max_steps: 4,
                max_entries: tier.pick(12, 30),
                bulk_n: tier.pick(60, 300),
                big_values: true,
                rollback: 2,
                rollback_weight: 0,
                reopen_weight: 5,
                overlay_weight: 15,
                witness_weight: 0.0,
                ext4_weight: 2,
            }),
            prop::collection::vec(
                (batch(), any::<bool>(), prop::bool::weighted(0.4)).prop_map(|(batch, overlay, child)| ChangeSpec { batch, overlay, child: overlay && child }),
                2..=4,
            ),
            prop::collection::vec(
                prop_oneof![
                    8 => (0u8..4, prop_oneof![3 => Just(Flavour::Blocking), 3 => Just(Flavour::NonBlocking), 2 => Just(Flavour::NonBlockingLive)])
                        .prop_map(|(cs, flavour)| Act::Attempt { cs, flavour }),
                    1 => (1u8..3).prop_map(Act::Rollback),
                    2 => (0u8..4, 0u8..4, any::<u8>()).prop_map(|(a, b, hold_ms)| Act::Concurrent { a, b, hold_ms }),
                ],
                2..=9,
            ),
            any::<bool>(),
            any::<u8>(),
        )
            .prop_map(|(base, mut changes, mut acts, reopen_before_probe, shape)| {
                // one case in five: an overlay chain #0 <- #1, the parent committed, then attempts with the remaining
                // (by then stale) changesets, then the child - which must still be accepted
                if shape % 5 == 0 && changes.len() >= 3 {
                    changes[0].overlay = true;
                    changes[0].child = false;
                    changes[1].overlay = true;
                    changes[1].child = true;
                    if shape % 2 == 0 {
                        changes[2].overlay = false;
                        changes[2].child = false;
                    }
                    let fl = |b: u8| match b % 3 {
                        0 => Flavour::Blocking,
                        1 => Flavour::NonBlocking,
                        _ => Flavour::NonBlockingLive,
                    };
                    let mut forced = vec![Act::Attempt { cs: 0, flavour: if shape & 16 == 0 { Flavour::Blocking } else { Flavour::NonBlocking } }];
                    for (i, _) in changes.iter().enumerate().skip(2) {
                        forced.push(Act::Attempt { cs: i as u8, flavour: fl(shape / 32 + i as u8) });
                    }
                    forced.push(Act::Attempt { cs: 1, flavour: fl(shape / 8) });
                    forced.extend(acts.drain(..).take(4));
                    acts = forced;
                }
                C12Case { base, changes, acts, reopen_before_probe, allow_gray: true }
            })
            .boxed()
    }
    fn run(case: &C12Case, ctx: &Ctx) -> Result<CaseInfo, Violation> {
        match case.base.cfg.hasher {
            HasherKind::Blake3 | HasherKind::TailLabel => run_case::<B3>(case, ctx),
            HasherKind::Sha2 => run_case::<S2>(case, ctx),
        }
    }
    fn brief(case: &C12Case) -> String {
        format!(
            "base[{}] changes={:?} acts={:?} reopen_before_probe={}",
            case.base.brief(),
            case.changes.iter().map(|c| if c.child { "ov-child" } else if c.overlay { "ov" } else { "fs" }).collect::<Vec<_>>(),
            case.acts,
            case.reopen_before_probe
        )
    }
    fn max_shrink_iters(_t: Tier) -> u32 {
        300
    }
}
