//! C03 — a process crash at any instant leaves exactly the old or the new state.
//! C04 — durability never depends on unsynced data (power-loss safety).

use crate::crash::{run_fault_case, FaultCase, FaultParams, Mode};
use crate::driver::{B3, S2};
use crate::hist::{history_strategy, CaseInfo, HistParams, Violation};
use crate::reftrie::HasherKind;
use crate::runner::{Check, Ctx, Tier};
use proptest::prelude::*;

fn strategy(tier: Tier) -> BoxedStrategy<FaultCase> {
    (
        history_strategy(HistParams {
            max_steps: tier.pick(6, 10),
            max_entries: tier.pick(14, 30),
            bulk_n: tier.pick(120, 500),
            big_values: true,
            rollback: 1,
            rollback_weight: 14,
            reopen_weight: 6,
            overlay_weight: 25,
            witness_weight: 0.0,
            ext4_weight: 5,
        }),
        any::<u64>(),
    )
        .prop_map(|(hist, choice_seed)| FaultCase { hist, choice_seed })
        .boxed()
}

fn run(case: &FaultCase, ctx: &Ctx, mode: Mode) -> Result<CaseInfo, Violation> {
    let fp = FaultParams {
        mode,
        max_images: ctx.tier.pick(160, 1200),
        nested: ctx.tier.pick(2, 6),
        max_nested_images: ctx.tier.pick(12, 60),
        randoms: ctx.tier.pick(2, 8),
    };
    match case.hist.cfg.hasher {
        HasherKind::Blake3 | HasherKind::TailLabel => run_fault_case::<B3>(case, &fp, &ctx.scratch),
        HasherKind::Sha2 => run_fault_case::<S2>(case, &fp, &ctx.scratch),
    }
}

fn brief(case: &FaultCase) -> String {
    format!("op-under-test = last step of: {}", case.hist.brief())
}

pub struct C03;
impl Check for C03 {
    type Case = FaultCase;
    const ID: &'static str = "C03";
    const LEVEL: &'static str = "fault_enumeration";
    fn rule() -> String {
        "for a proptest history (commits via sessions/overlays incl. large values, rollbacks, reopens; rollback on in 60% with small log limits and 1-3-record \
         segments) the LAST operation runs under the I/O hook; at EVERY event boundary of it (begin/end of each page write, resize, fsync, create, unlink, directory \
         sync; plus 'after return') process-crash images are synthesised from a shadow file system (all completed operations applied; in-flight ones none / all / \
         2 random choices incl. page-aligned prefixes of multi-page writes), de-duplicated by content hash, materialised as sparse directories and opened with \
         Nomt::open. Oracle: open succeeds; root, sync_seqn, ALL values, a proof sample, and (alternating) a rollback(1) probe or a further model-checked commit \
         come from exactly one of {pre, post}; post if the call had returned. Nested: for images with a non-empty WAL the recovery open itself is traced and its \
         boundaries enumerated the same way (must show the same state as the first recovery). Shadow-vs-disk byte comparison at quiescent points guards hook \
         completeness. evaluations = cases (operations under test); non-trivial = case with >= 3 verified images of which >= 1 differs from both quiescent images; \
         labels count images per phase".into()
    }
    fn assumptions() -> Vec<String> {
        vec![
            "a single 4 KiB page write is atomic; multi-page writes may persist any page-aligned prefix".into(),
            "creating a brand-new store is not a crash target".into(),
            "event order across threads is the one the run produced; images do not depend on timing once recorded".into(),
        ]
    }
    fn cases(tier: Tier) -> u32 {
        tier.pick(256, 2400)
    }
    fn strategy(tier: Tier) -> BoxedStrategy<FaultCase> {
        strategy(tier)
    }
    fn run(case: &FaultCase, ctx: &Ctx) -> Result<CaseInfo, Violation> {
        run(case, ctx, Mode::Crash)
    }
    fn brief(case: &FaultCase) -> String {
        brief(case)
    }
    fn max_shrink_iters(_t: Tier) -> u32 {
        60
    }
}

pub struct C04;
impl Check for C04 {
    type Case = FaultCase;
    const ID: &'static str = "C04";
    const LEVEL: &'static str = "fault_enumeration";
    fn rule() -> String {
        "as C03, but at every event boundary POWER-LOSS images are synthesised: the durable state (per file: writes completed before the start of a completed fsync \
         of that file; per directory: entries covered by a directory fsync or by an fsync of the created file) plus an admissible part of the volatile operations: \
         nothing; everything; everything except / only one file class (meta, ln, bbn, ht, wal, rollback, dir); random choices = per file an order-preserving prefix \
         of size-affecting operations (resizes, appends, extending writes; page-aligned prefix of the one at the cut) and an arbitrary subset of in-place page writes \
         whose region exists, per directory an order-preserving prefix of create/unlink. Same oracle as C03 (exactly pre or post; post after a successful return), \
         incl. nested power loss during the recovery open. evaluations = cases; non-trivial = case with >= 3 verified images of which >= 1 differs from both \
         quiescent images".into()
    }
    fn assumptions() -> Vec<String> {
        vec![
            "fault class as stated in the property: unsynced in-place page writes may be lost in any subset, unsynced appends/extensions persist as page-aligned prefixes in order; torn sub-page writes and reordering inside an fsynced range are not generated".into(),
            "directory entry faults are order-preserving prefixes (journalled metadata)".into(),
        ]
    }
    fn cases(tier: Tier) -> u32 {
        tier.pick(256, 2400)
    }
    fn strategy(tier: Tier) -> BoxedStrategy<FaultCase> {
        strategy(tier)
    }
    fn run(case: &FaultCase, ctx: &Ctx) -> Result<CaseInfo, Violation> {
        run(case, ctx, Mode::Power)
    }
    fn brief(case: &FaultCase) -> String {
        brief(case)
    }
    fn max_shrink_iters(_t: Tier) -> u32 {
        60
    }
}
