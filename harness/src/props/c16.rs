//! C16 — the on-disk image always decodes to the abstract state.
//! C19 — storage is reclaimed and utilisation is reported truthfully.

use crate::hist::{dispatch, history_strategy, CaseInfo, HistParams, History, Obs, Violation};
use crate::runner::{Check, Ctx, Tier};
use proptest::prelude::*;

pub struct C16;
impl Check for C16 {
    type Case = History;
    const ID: &'static str = "C16";
    const LEVEL: &'static str = "exploration";
    fn rule() -> String {
        "after EVERY step (commit via session / overlay chain, rollback, reopen) of proptest histories under random configurations (incl. hash tables of 2000..9000 buckets, \
         1 MiB page cache) the files are snapshotted sparsely and decoded by an independent decoder written from the layout comments (meta, bbn branch nodes, ln leaves and \
         overflow chains, both free lists, ht meta bytes + bucket pages). Predicates: structural well-formedness (strictly increasing separators within / across bbn nodes, first \
         separator all-zero, unique in-range non-free leaf pointers, keys strictly increasing and inside [separator, next), monotone in-page cell offsets, complete overflow chains \
         whose pages are unique / in range / not free and whose stored hash is the value hash, acyclic free lists with unique in-range entries, no page both free and used or used \
         twice); decoded key-value multiset == model; every FULL bucket's label is the documented encoding (id = parent*64 + child + 1) of a page id, unique, tagged with its hash, \
         reachable by triangular probing before any EMPTY byte; every stored page is reachable in the reference trie and every reachable node slot equals the reference node; every \
         reachable page is stored or (depth >= 2) absent with the elided bit set in its nearest stored ancestor. Non-trivial = case with >= 1 decoded image having >= 2 leaves, \
         >= 1 free ln entry and >= 1 stored non-root merkle page; distinct = distinct serialized case".into()
    }
    fn assumptions() -> Vec<String> {
        vec![
            "bucket hash = xxh3_64 seeded with the first 8 seed bytes (big-endian) over the 32-byte label; triangular probing; meta byte 0 = empty, 0x7f = tombstone, 0x80|hash>>57 = full (constants taken from bitbox/meta_map.rs and bitbox/mod.rs, not documented elsewhere)".into(),
            "images are taken while the handle is idle (no commit in progress)".into(),
        ]
    }
    fn cases(tier: Tier) -> u32 {
        tier.pick(2400, 24000)
    }
    fn strategy(tier: Tier) -> BoxedStrategy<History> {
        let general = history_strategy(HistParams {
            max_steps: tier.pick(9, 20),
            max_entries: tier.pick(30, 80),
            bulk_n: tier.pick(700, 3000),
            big_values: true,
            rollback: 1,
            rollback_weight: 8,
            reopen_weight: 10,
            overlay_weight: 20,
            witness_weight: 0.0,
            ext4_weight: 4,
        });
        // one case in 48: a bottom-level branch node walked through its capacity byte by byte (hist::bbn_fill_strategy)
        if std::env::var_os("VERIF_ONLY_FAMILY").is_some() {
            // development aid: only the forced shape
            return crate::hist::bbn_fill_strategy(2).boxed();
        }
        prop_oneof![47 => general, 1 => crate::hist::bbn_fill_strategy(2)].boxed()
    }
    fn run(case: &History, ctx: &Ctx) -> Result<CaseInfo, Violation> {
        let obs = Obs {
            decode: true,
            root: true,
            ..Default::default()
        };
        let mut info = dispatch(case, &obs, &ctx.scratch, ctx.tier.pick(6 << 20, 32 << 20))?;
        // "... and after any recovered crash": a quarter of the cases additionally crash their last
        // operation at every event boundary; each recovered image is decoded with the same predicates.
        if case.salt % 8 == 0 && case.steps.len() >= 2 && info.discarded.is_none() {
            let fc = crate::crash::FaultCase { hist: case.clone(), choice_seed: case.salt };
            let fp = crate::crash::FaultParams {
                mode: crate::crash::Mode::Crash,
                max_images: ctx.tier.pick(48, 300),
                nested: 1,
                max_nested_images: 8,
                randoms: 1,
            };
            let r = match case.cfg.hasher {
                crate::reftrie::HasherKind::Blake3 | crate::reftrie::HasherKind::TailLabel => crate::crash::run_fault_case::<crate::driver::B3>(&fc, &fp, &ctx.scratch),
                crate::reftrie::HasherKind::Sha2 => crate::crash::run_fault_case::<crate::driver::S2>(&fc, &fp, &ctx.scratch),
            };
            let ci = r.map_err(|v| Violation { step: v.step, msg: format!("[recovered crash image] {}", v.msg) })?;
            info.add("recovered_images_decoded", ci.labels.get("images_verified").copied().unwrap_or(0));
            info.bump("cases_with_crash_recovery");
        }
        let l = |k: &str| info.labels.get(k).copied().unwrap_or(0);
        info.nontrivial = info.discarded.is_none() && l("decoded_nontrivial_images") >= 1;
        Ok(info)
    }
    fn brief(case: &History) -> String {
        case.brief()
    }
}

pub struct C19;
impl Check for C19 {
    type Case = History;
    const ID: &'static str = "C19";
    const LEVEL: &'static str = "exploration";
    fn rule() -> String {
        "fill / overwrite / empty cycles generated as proptest histories whose bulk operations insert thousands of ~1.3 KiB values (thousands of leaves), rewrite them with lengths \
         hopping across the in-leaf/overflow boundary and delete 90-100% (free lists spanning >= 2 pages, then drained by the next fill), plus ordinary mixed batches, rollbacks and \
         reopens. After EVERY step the independent decoder computes the exact partition of each value file: {1..bump-1} = live leaves ⊎ live overflow pages ⊎ free-list pages ⊎ free \
         entries (ln) and = live branch nodes ⊎ free-list pages ⊎ free entries (bbn) - any page below the frontier that is neither in use nor free is a leak; and \
         hash_table_utilization().occupied == number of FULL meta bytes on disk, capacity == bucket count, occupied == 0 when the store is empty. A third of the cases (<= 1500 keys) additionally crash their last operation at every I/O event boundary (C03 engine): every handle that comes out of the recovery open must report the number of FULL buckets of the recovered files and leave an exact partition. Non-trivial = case in which the ln \
         free list reached >= 2 pages (> 1022 entries) or an in-leaf<->overflow migration happened, with >= 3 commits; distinct = distinct serialized case".into()
    }
    fn cases(tier: Tier) -> u32 {
        tier.pick(640, 6000)
    }
    fn strategy(tier: Tier) -> BoxedStrategy<History> {
        history_strategy(HistParams {
            max_steps: tier.pick(9, 18),
            max_entries: tier.pick(20, 60),
            bulk_n: tier.pick(6000, 9000),
            big_values: true,
            rollback: 1,
            rollback_weight: 6,
            reopen_weight: 8,
            overlay_weight: 15,
            witness_weight: 0.0,
            ext4_weight: 4,
        })
        .boxed()
    }
    fn run(case: &History, ctx: &Ctx) -> Result<CaseInfo, Violation> {
        let obs = Obs {
            alloc: true,
            ..Default::default()
        };
        let mut info = dispatch(case, &obs, &ctx.scratch, ctx.tier.pick(24 << 20, 64 << 20))?;
        // handles that come out of a crash recovery must report truthfully as well (and must not have leaked
        // pages): a third of the cases of modest size crash their last operation at every event boundary and
        // every recovered handle is judged (utilisation vs FULL buckets on disk, exact partition).
        if case.salt % 3 == 0 && case.steps.len() >= 2 && info.discarded.is_none() && info.labels.get("max_keys").copied().unwrap_or(0) <= 1500 {
            let fc = crate::crash::FaultCase { hist: case.clone(), choice_seed: case.salt };
            let fp = crate::crash::FaultParams {
                mode: crate::crash::Mode::Crash,
                max_images: ctx.tier.pick(40, 240),
                nested: 1,
                max_nested_images: 6,
                randoms: 1,
            };
            let r = match case.cfg.hasher {
                crate::reftrie::HasherKind::Blake3 | crate::reftrie::HasherKind::TailLabel => crate::crash::run_fault_case::<crate::driver::B3>(&fc, &fp, &ctx.scratch),
                crate::reftrie::HasherKind::Sha2 => crate::crash::run_fault_case::<crate::driver::S2>(&fc, &fp, &ctx.scratch),
            };
            let ci = r.map_err(|v| Violation { step: v.step, msg: format!("[recovered crash image] {}", v.msg) })?;
            info.add("recovered_handles_judged", ci.labels.get("images_verified").copied().unwrap_or(0));
            info.bump("cases_with_crash_recovery");
        }
        let l = |k: &str| info.labels.get(k).copied().unwrap_or(0);
        info.nontrivial = info.discarded.is_none()
            && l("commits") >= 3
            && (l("max_free_list_pages_ln") >= 2 || l("inleaf_overflow_migration") >= 1);
        Ok(info)
    }
    fn brief(case: &History) -> String {
        case.brief()
    }
}
