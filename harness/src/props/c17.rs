//! C17 — the previous durable image stays intact until the switch-over.

use crate::decode::{self};
use crate::driver::{Cfg, CommitOpts, Db};
use crate::model::{MOp, Map};
use serde::{Deserialize, Serialize};
use crate::driver::{B3, HK, S2};
use crate::hist::{history_strategy, CaseInfo, HistParams, History, Obs, Runner, Step, StepOutcome, Violation};
use crate::iosim::{self, Ev, Kind, Recorder, PAGE};
use crate::reftrie::HasherKind;
use crate::runner::{Check, Ctx, Tier};
use proptest::strategy::BoxedStrategy;
use std::collections::{BTreeMap, BTreeSet};

pub struct C17;

/// Adaptive free-list edge scenario: shape the ln free list so that a commit leaves `k` entries in
/// the head page while freeing several pages' worth of entries (the decoder tells how many entries
/// the head page holds; the next commit's allocations are sized accordingly).
#[derive(Clone, Debug, Serialize, Deserialize, PartialEq, Eq)]
pub struct EdgeSpec {
    pub k: u8,
    pub slack: u8,
    pub big_pages: u16,
    pub mid_pages: u16,
}

#[derive(Clone, Debug, Serialize, Deserialize, PartialEq, Eq)]
pub struct C17Case {
    pub hist: History,
    pub edge: Option<EdgeSpec>,
}

/// Number of ln pages an overflow value of `size` bytes occupies (from the comment in ops/overflow.rs).
fn overflow_pages(size: usize) -> usize {
    let body = 4092usize;
    let raw = (size + body - 1) / body;
    if raw <= 15 {
        return raw;
    }
    // bytes incl. the page numbers that do not fit the cell
    let mut pages = raw;
    loop {
        let need = size + (pages - 15) * 4;
        let p = (need + body - 1) / body;
        if p <= pages {
            return pages;
        }
        pages = p;
    }
}

fn size_for_pages(pages: usize) -> usize {
    // largest size whose page count is <= pages
    let (mut lo, mut hi) = (1usize, pages * 4092 + 4092);
    while lo < hi {
        let mid = (lo + hi + 1) / 2;
        if overflow_pages(mid) <= pages {
            lo = mid;
        } else {
            hi = mid - 1;
        }
    }
    lo
}

fn run_edge<H: HK>(cfg: &Cfg, e: &EdgeSpec, ctx: &Ctx) -> Result<CaseInfo, Violation> {
    let v = |step: usize, m: String| Violation { step, msg: m };
    let mut info = CaseInfo::default();
    let rec = Recorder::install();
    rec.unwatch();
    let mut cfg = cfg.clone();
    cfg.rollback = false;
    let dir = ctx.scratch.dir(cfg.fs);
    let db = Db::<H>::open(&dir, &cfg).map_err(|f| v(0, f.sig()))?;
    let mut model = Map::new();
    let key = |b: u8| -> crate::util::Key {
        let mut k = [b; 32];
        k[31] = 1;
        k
    };
    let commit = |db: &Db<H>, model: &mut Map, batch: Vec<(crate::util::Key, MOp)>, step: usize, judge_it: bool, info: &mut CaseInfo| -> Result<(), Violation> {
        let old = if judge_it {
            let img = iosim::read_dir_image(&dir).map_err(|e| v(step, format!("INFRA: {e}")))?;
            Some(old_image(&img).map_err(|m| v(step, format!("on-disk image before the step is not well-formed: {m}")))?)
        } else {
            None
        };
        if judge_it {
            rec.watch(&dir, None);
        }
        let r = db.commit_batch(model, &batch, &CommitOpts::default());
        let tr = rec.take();
        rec.unwatch();
        r.map_err(|f| v(step, f.sig()))?;
        *model = crate::model::apply(H::KIND, model, &batch);
        if let Some(old) = old {
            judge(&old, &tr, info).map_err(|m| v(step, m))?;
        }
        Ok(())
    };
    let val = |k: &crate::util::Key, pages: usize| std::sync::Arc::new(crate::util::value_bytes(k, 1, size_for_pages(pages)));
    let (a, b, c) = (key(0x11), key(0x77), key(0xcc));
    commit(&db, &mut model, vec![(a, MOp::Write(Some(val(&a, e.big_pages as usize)))), (b, MOp::Write(Some(val(&b, e.mid_pages as usize))))], 0, false, &mut info)?;
    commit(&db, &mut model, vec![(b, MOp::Write(None))], 1, true, &mut info)?;
    // how many entries does the head free-list page hold?
    let img = iosim::read_dir_image(&dir).map_err(|e| v(2, format!("INFRA: {e}")))?;
    let d = decode::decode_image(&img).map_err(|m| v(2, format!("on-disk image is not well-formed: {m}")))?;
    let meta = d.meta.clone().unwrap();
    let head = img.get("ln").and_then(|c| c.read_page(meta.ln_freelist_pn as u64)).map(|p| u16::from_le_bytes(p[4..6].try_into().unwrap()) as usize).unwrap_or(0);
    info.max("max_free_list_pages_ln", d.ln_free.list_pages.len() as u64);
    info.add("edge_head_entries", head as u64);
    let want_pages = head.saturating_sub(e.k as usize + e.slack as usize);
    let mut batch = vec![(a, MOp::Write(None))];
    if want_pages >= 1 {
        batch.push((c, MOp::Write(Some(val(&c, want_pages)))));
    }
    batch.sort_by(|x, y| x.0.cmp(&y.0));
    commit(&db, &mut model, batch, 2, true, &mut info)?;
    // and the resulting image must still be exact
    crate::hist::decode_check::<H>(&dir, &model).map_err(|m| v(3, m))?;
    let img = iosim::read_dir_image(&dir).map_err(|e| v(3, format!("INFRA: {e}")))?;
    let d = decode::decode_image(&img).map_err(|m| v(3, m))?;
    decode::check_partition(&d).map_err(|m| v(3, format!("allocation: {m}")))?;
    db.close().map_err(|f| v(3, f.sig()))?;
    crate::hist::rm(&dir);
    info.bump("free_list_edge_scenarios");
    info.nontrivial = d.ln_free.list_pages.len() >= 2 || head > 0;
    Ok(info)
}

struct OldImage {
    live_ln: BTreeSet<u32>,
    ln_bump: u32,
    live_bbn: BTreeSet<u32>,
    bbn_bump: u32,
    /// per rollback segment: (offset just past the last live record, holds a live record)
    segs: BTreeMap<String, (u64, bool)>,
    free_ln: usize,
    ln_kind: BTreeMap<u32, &'static str>,
    bbn_list_pages: BTreeSet<u32>,
    img: iosim::DirImage,
}

fn old_image(img: &iosim::DirImage) -> Result<OldImage, String> {
    let d = decode::decode_image(img)?;
    let meta = d.meta.clone().unwrap();
    let mut live_ln = d.ln_live.clone();
    live_ln.extend(d.ln_free.list_pages.iter().cloned());
    let mut live_bbn = d.bbn_live.clone();
    live_bbn.extend(d.bbn_free.list_pages.iter().cloned());
    let mut segs = BTreeMap::new();
    for (name, c) in img {
        if !name.starts_with("rollback") {
            continue;
        }
        // records: len u32, id u64, payload; 4 KiB aligned
        let mut off = 0u64;
        let mut last_live_end = 0u64;
        let mut holds_live = false;
        while off + 12 <= c.len {
            let p = c.read_page(off / PAGE as u64);
            let (len, id) = match p {
                Some(p) => (
                    u32::from_le_bytes(p[0..4].try_into().unwrap()) as u64,
                    u64::from_le_bytes(p[4..12].try_into().unwrap()),
                ),
                None => (0, 0),
            };
            if id == 0 {
                break;
            }
            let end = off + ((12 + len + PAGE as u64 - 1) / PAGE as u64) * PAGE as u64;
            if meta.rollback_start != 0 && id >= meta.rollback_start && id <= meta.rollback_end {
                holds_live = true;
                last_live_end = end;
            }
            off = end;
        }
        segs.insert(name.clone(), (last_live_end, holds_live));
    }
    let mut ln_kind: BTreeMap<u32, &'static str> = BTreeMap::new();
    for p in &d.ln_live {
        ln_kind.insert(*p, if d.leaf_pages.contains(p) { "a live leaf" } else { "a live overflow page" });
    }
    for p in &d.ln_free.list_pages {
        ln_kind.insert(*p, "a free-list page");
    }
    for p in &d.bbn_free.list_pages {
        let _ = p;
    }
    Ok(OldImage {
        bbn_list_pages: d.bbn_free.list_pages.iter().cloned().collect(),
        img: img.clone(),
        ln_kind,
        live_ln,
        ln_bump: meta.ln_bump,
        live_bbn,
        bbn_bump: meta.bbn_bump,
        segs,
        free_ln: d.ln_free.entries.len(),
    })
}

/// Judge the events of one sync up to the end of the meta fsync.
fn judge(old: &OldImage, tr: &[Ev], info: &mut CaseInfo) -> Result<(), String> {
    let mut meta_fsync: Option<u64> = None;
    let mut meta_written = false;
    let mut reused = 0u64;
    for ev in tr {
        match ev {
            Ev::End { id, ok } => {
                if Some(*id) == meta_fsync && *ok {
                    break; // switch-over durable: everything after is unrestricted
                }
            }
            Ev::Begin { id, file, kind } => {
                info.bump("events_judged");
                let class = iosim::file_class(file);
                match (class, kind) {
                    ("meta", Kind::Write { .. }) => {
                        if meta_written {
                            return Err("a second write to meta before the switch-over is durable".into());
                        }
                        meta_written = true;
                    }
                    ("meta", Kind::Fsync) => meta_fsync = Some(*id),
                    ("meta", k) => return Err(format!("{} on meta before the switch-over", k.name())),
                    ("wal", _) => {}
                    ("ht", Kind::Fsync) => {}
                    ("ht", k) => {
                        return Err(format!(
                            "{} on the hash-table file before the switch-over record is durable (the old state's merkle pages and occupancy map live there)",
                            k.name()
                        ))
                    }
                    ("ln", Kind::Write { off, data }) | ("bbn", Kind::Write { off, data }) => {
                        let (live, bump) = if class == "ln" { (&old.live_ln, old.ln_bump) } else { (&old.live_bbn, old.bbn_bump) };
                        let first = (*off / PAGE as u64) as u32;
                        let last = ((*off + data.len().max(1) as u64 - 1) / PAGE as u64) as u32;
                        for pn in first..=last {
                            if pn < bump {
                                if live.contains(&pn) {
                                    // rewriting a page with byte-identical content does not alter the old image
                                    let rel = (pn as u64 * PAGE as u64).saturating_sub(*off) as usize;
                                    let same = old
                                        .img
                                        .get(class)
                                        .and_then(|c| c.read_page(pn as u64))
                                        .map_or(false, |p| {
                                            if rel + PAGE > data.len() {
                                                return false;
                                            }
                                            let newp = &data[rel..rel + PAGE];
                                            if class == "ln" && old.ln_kind.get(&pn) == Some(&"a free-list page") || class == "bbn" && old.bbn_list_pages.contains(&pn) {
                                                // free-list page: only prev, count and the listed entries are meaningful
                                                let n = 6 + 4 * u16::from_le_bytes(p[4..6].try_into().unwrap()) as usize;
                                                n <= PAGE && p[..n] == newp[..n]
                                            } else {
                                                p == newp
                                            }
                                        });
                                    if same {
                                        info.bump("identical_rewrites_of_live_pages");
                                        continue;
                                    }
                                    if std::env::var_os("VERIF_DEBUG").is_some() {
                                        let oldp = old.img.get(class).and_then(|c| c.read_page(pn as u64)).map(|p| p.to_vec()).unwrap_or_default();
                                        let newp = &data[rel..rel + PAGE];
                                        let d = |p: &[u8]| format!("prev={} count={} first={:?}", u32::from_le_bytes(p[0..4].try_into().unwrap()), u16::from_le_bytes(p[4..6].try_into().unwrap()), (0..6).map(|i| u32::from_le_bytes(p[6 + i * 4..10 + i * 4].try_into().unwrap())).collect::<Vec<_>>());
                                        eprintln!("DBG old page {pn}: {}", d(&oldp));
                                        eprintln!("DBG new page {pn}: {}", d(newp));
                                    }
                                    let kind = if class == "ln" { old.ln_kind.get(&pn).copied().unwrap_or("in use") } else { "a branch node or free-list page" };
                                    return Err(format!(
                                        "write to {class} page {pn} before the switch-over: the page is {kind} of the previously committed state (bump {bump})"
                                    ));
                                }
                                if pn == 0 {
                                    return Err(format!("write to the reserved page 0 of {class}"));
                                }
                                reused += 1;
                            }
                        }
                    }
                    ("ln", Kind::SetLen { len }) | ("bbn", Kind::SetLen { len }) => {
                        let bump = if class == "ln" { old.ln_bump } else { old.bbn_bump };
                        if *len < bump as u64 * PAGE as u64 {
                            return Err(format!("{class} truncated to {len} bytes, below the old bump {bump}"));
                        }
                    }
                    ("ln", Kind::Fsync) | ("bbn", Kind::Fsync) => {}
                    ("rollback", Kind::Append { .. }) | ("rollback", Kind::Fsync) | ("rollback", Kind::Create) => {}
                    ("rollback", Kind::SetLen { len }) => {
                        if let Some((live_end, _)) = old.segs.get(file) {
                            if *len < *live_end {
                                return Err(format!(
                                    "rollback segment {file} truncated to {len} before the switch-over, below the end {live_end} of a live record"
                                ));
                            }
                        }
                    }
                    ("rollback", Kind::Unlink) => {
                        if old.segs.get(file).map_or(false, |s| s.1) {
                            return Err(format!("rollback segment {file} holding a live record unlinked before the switch-over"));
                        }
                    }
                    ("rollback", Kind::Write { off, .. }) => {
                        if let Some((live_end, _)) = old.segs.get(file) {
                            if *off < *live_end {
                                return Err(format!("positioned write into the live part of rollback segment {file}"));
                            }
                        }
                    }
                    ("dir", _) => {}
                    (c, k) => return Err(format!("unexpected {} on {c} file '{file}' before the switch-over", k.name())),
                }
            }
        }
    }
    if reused > 0 {
        info.add("free_pages_reused", reused);
    }
    if reused > 0 && old.free_ln > 0 {
        info.bump("syncs_reusing_free_pages");
    }
    Ok(())
}

fn run_case<H: HK>(hist: &History, ctx: &Ctx) -> Result<CaseInfo, Violation> {
    let rec = Recorder::install();
    rec.unwatch();
    let obs = Obs { root: true, ..Default::default() };
    let mut r = Runner::<H>::new(hist, &obs, &ctx.scratch, 8 << 20)?;
    let dir = r.dir.clone();
    let mut syncs = 0u64;
    for (i, st) in hist.steps.iter().enumerate() {
        let judged = !matches!(st, Step::Reopen(_));
        let old = if judged {
            let img = iosim::read_dir_image(&dir).map_err(|e| Violation { step: i, msg: format!("INFRA: {e}") })?;
            Some(old_image(&img).map_err(|m| Violation { step: i, msg: format!("on-disk image before the step is not well-formed: {m}") })?)
        } else {
            None
        };
        if judged {
            rec.watch(&dir, None);
        }
        let out = r.step(i, st);
        let tr = rec.take();
        rec.unwatch();
        match out? {
            StepOutcome::Done => {}
            StepOutcome::Discard(w) => {
                let mut info = std::mem::take(&mut r.info);
                info.discarded = Some(w);
                return Ok(info);
            }
        }
        if let Some(old) = old {
            if !tr.is_empty() {
                let mut info = std::mem::take(&mut r.info);
                let res = judge(&old, &tr, &mut info);
                r.info = info;
                res.map_err(|m| Violation { step: i, msg: m })?;
                syncs += 1;
            }
        }
    }
    // the switch-over FAILS: a quarter of the cases make one more commit whose meta write (or meta fsync) fails once
    // (injected EIO). The switch-over never becomes durable, so until the call returns every event is still bound by the
    // rule "nothing the previous durable image depends on is modified" - in particular no hash-table write at all.
    if hist.salt % 4 == 0 && r.db.is_some() {
        let step = hist.steps.len();
        let img = iosim::read_dir_image(&dir).map_err(|e| Violation { step, msg: format!("INFRA: {e}") })?;
        let old = old_image(&img).map_err(|m| Violation { step, msg: format!("on-disk image before the step is not well-formed: {m}") })?;
        let mut s = crate::util::SplitMix(hist.salt ^ 0x17fa);
        let mut batch: BTreeMap<crate::util::Key, MOp> = BTreeMap::new();
        let existing: Vec<crate::util::Key> = r.model.cur.keys().cloned().collect();
        for i in 0..(4 + s.below(12)) {
            let k = if !existing.is_empty() && i % 2 == 0 { existing[s.below(existing.len() as u64) as usize] } else { s.key() };
            let op = if i % 5 == 4 { MOp::Write(None) } else { MOp::Write(Some(std::sync::Arc::new(crate::util::value_bytes(&k, 7777, 30 + s.below(200) as usize)))) };
            batch.insert(k, op);
        }
        let batch: Vec<(crate::util::Key, MOp)> = batch.into_iter().collect();
        let fsync_instead = s.below(2) == 1;
        rec.watch(&dir, Some(iosim::FailPlan { k: fsync_instead as usize, persistent: false, errno: libc::EIO, class: Some("meta") }));
        let res = r.db().commit_batch(&r.model.cur, &batch, &CommitOpts::default());
        let fired = !rec.fired().is_empty();
        let tr = rec.take();
        rec.unwatch();
        if fired {
            if res.is_ok() {
                return Err(Violation { step, msg: "INFRA: the meta write failed (injected) but the commit returned Ok (C14's business)".into() });
            }
            let mut info2 = std::mem::take(&mut r.info);
            let res = judge(&old, &tr, &mut info2);
            r.info = info2;
            res.map_err(|m| Violation { step, msg: format!("after the {} of the meta page FAILED (switch-over never durable): {m}", if fsync_instead { "fsync" } else { "write" }) })?;
            r.info.bump("syncs_with_failed_switch_over_judged");
            // the handle is poisoned; drop it without the final consistency pass
            let info = std::mem::take(&mut r.info);
            if let Some(db) = r.detach() {
                let _ = db.close();
            }
            crate::hist::rm(&dir);
            let mut info = info;
            info.add("syncs_judged", syncs);
            let l = |k: &str| info.labels.get(k).copied().unwrap_or(0);
            info.nontrivial = l("syncs_reusing_free_pages") >= 1 && l("delete_existing") >= 1;
            return Ok(info);
        } else if res.is_ok() {
            r.model.commit(&batch);
        }
    }
    let mut info = std::mem::take(&mut r.info);
    r.finish()?;
    info.add("syncs_judged", syncs);
    let l = |k: &str| info.labels.get(k).copied().unwrap_or(0);
    info.nontrivial = l("syncs_reusing_free_pages") >= 1 && l("delete_existing") >= 1;
    Ok(info)
}

impl Check for C17 {
    type Case = C17Case;
    const ID: &'static str = "C17";
    const LEVEL: &'static str = "fault_enumeration";
    fn rule() -> String {
        "for EVERY mutating file event (write, append, resize, create, unlink, fsync - from the I/O hook) of EVERY commit / rollback of proptest histories (all worker counts; large values; \
         free lists filled by earlier deletions and reused; rollback on in 60% with small segments), from the start of the operation until the fsync of the meta write has completed: the event is \
         judged against the PREVIOUS durable image decoded by the independent decoder right before the operation: a write to ln / bbn page pn requires pn to be a free-list entry or >= the old bump \
         (never a live leaf, overflow page, branch node, free-list page or page 0); resizes of ln / bbn never go below the old bump; no write / resize of the hash-table file at all; exactly one \
         write to meta; the WAL is unrestricted; rollback segments only grow (append / extend), are never truncated below the end of a live record nor unlinked while holding one. For an overlay \
         chain only the first commit of the step is judged. A quarter of the cases end with one more commit whose meta write or meta fsync fails once (injected EIO): the switch-over never \
         becomes durable, so every event until the call returns is judged by the same rules (no hash-table write at all, no live page touched). evaluations = cases; non-trivial = case with >= 1 judged sync that wrote to >= 1 page below the old bump (reuse of freed pages) after \
         deletes; labels count events judged".into()
    }
    fn assumptions() -> Vec<String> {
        vec!["the hook reports every mutating file operation (guarded by the shadow-vs-disk comparison of C03/C04)".into()]
    }
    fn cases(tier: Tier) -> u32 {
        tier.pick(3200, 24000)
    }
    fn strategy(tier: Tier) -> BoxedStrategy<C17Case> {
        use proptest::prelude::*;
        let edge = prop::option::weighted(
            0.04,
            (1u8..=5, 0u8..=3, 3300u16..=5400, 1300u16..=2300).prop_map(|(k, slack, big_pages, mid_pages)| EdgeSpec { k, slack, big_pages, mid_pages }),
        );
        let h = history_strategy(HistParams {
            max_steps: tier.pick(9, 18),
            max_entries: tier.pick(30, 60),
            bulk_n: tier.pick(500, 2500),
            big_values: true,
            rollback: 1,
            rollback_weight: 8,
            reopen_weight: 6,
            overlay_weight: 20,
            witness_weight: 0.0,
            ext4_weight: 3,
        });
        (h, edge).prop_map(|(hist, edge)| C17Case { hist, edge }).boxed()
    }
    fn run(case: &C17Case, ctx: &Ctx) -> Result<CaseInfo, Violation> {
        match (&case.edge, case.hist.cfg.hasher) {
            (Some(e), HasherKind::Blake3 | HasherKind::TailLabel) => run_edge::<B3>(&case.hist.cfg, e, ctx),
            (Some(e), HasherKind::Sha2) => run_edge::<S2>(&case.hist.cfg, e, ctx),
            (None, HasherKind::Blake3 | HasherKind::TailLabel) => run_case::<B3>(&case.hist, ctx),
            (None, HasherKind::Sha2) => run_case::<S2>(&case.hist, ctx),
        }
    }
    fn brief(case: &C17Case) -> String {
        match &case.edge {
            Some(e) => format!("free-list edge scenario {e:?} cfg[{}]", case.hist.cfg.brief()),
            None => case.hist.brief(),
        }
    }
}
