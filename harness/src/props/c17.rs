//! C17 — the previous durable image stays intact until the switch-over.

use crate::decode::{self};
use crate::driver::{B3, HK, S2};
use crate::hist::{history_strategy, CaseInfo, HistParams, History, Obs, Runner, Step, StepOutcome, Violation};
use crate::iosim::{self, Ev, Kind, Recorder, PAGE};
use crate::reftrie::HasherKind;
use crate::runner::{Check, Ctx, Tier};
use proptest::strategy::{BoxedStrategy, Strategy};
use std::collections::{BTreeMap, BTreeSet};

pub struct C17;

struct OldImage {
    live_ln: BTreeSet<u32>,
    ln_bump: u32,
    live_bbn: BTreeSet<u32>,
    bbn_bump: u32,
    /// per rollback segment: (offset just past the last live record, holds a live record)
    segs: BTreeMap<String, (u64, bool)>,
    free_ln: usize,
}

fn old_image(img: &iosim::DirImage) -> Result<OldImage, String> {
    let d = decode::decode_image(img)?;
    let meta = d.meta.clone().unwrap();
    let mut live_ln = d.ln_live.clone();
    live_ln.extend(d.ln_free.list_pages.iter().cloned());
    let mut live_bbn = d.bbn_live.clone();
    live_bbn.extend(d.bbn_free.list_pages.iter().cloned());
    let mut segs = BTreeMap::new();
    for (name, c) in img {
        if !name.starts_with("rollback") {
            continue;
        }
        // records: len u32, id u64, payload; 4 KiB aligned
        let mut off = 0u64;
        let mut last_live_end = 0u64;
        let mut holds_live = false;
        while off + 12 <= c.len {
            let p = c.read_page(off / PAGE as u64);
            let (len, id) = match p {
                Some(p) => (
                    u32::from_le_bytes(p[0..4].try_into().unwrap()) as u64,
                    u64::from_le_bytes(p[4..12].try_into().unwrap()),
                ),
                None => (0, 0),
            };
            if id == 0 {
                break;
            }
            let end = off + ((12 + len + PAGE as u64 - 1) / PAGE as u64) * PAGE as u64;
            if meta.rollback_start != 0 && id >= meta.rollback_start && id <= meta.rollback_end {
                holds_live = true;
                last_live_end = end;
            }
            off = end;
        }
        segs.insert(name.clone(), (last_live_end, holds_live));
    }
    Ok(OldImage {
        live_ln,
        ln_bump: meta.ln_bump,
        live_bbn,
        bbn_bump: meta.bbn_bump,
        segs,
        free_ln: d.ln_free.entries.len(),
    })
}

/// Judge the events of one sync up to the end of the meta fsync.
fn judge(old: &OldImage, tr: &[Ev], info: &mut CaseInfo) -> Result<(), String> {
    let mut meta_fsync: Option<u64> = None;
    let mut meta_written = false;
    let mut reused = 0u64;
    for ev in tr {
        match ev {
            Ev::End { id, ok } => {
                if Some(*id) == meta_fsync && *ok {
                    break; // switch-over durable: everything after is unrestricted
                }
            }
            Ev::Begin { id, file, kind } => {
                info.bump("events_judged");
                let class = iosim::file_class(file);
                match (class, kind) {
                    ("meta", Kind::Write { .. }) => {
                        if meta_written {
                            return Err("a second write to meta before the switch-over is durable".into());
                        }
                        meta_written = true;
                    }
                    ("meta", Kind::Fsync) => meta_fsync = Some(*id),
                    ("meta", k) => return Err(format!("{} on meta before the switch-over", k.name())),
                    ("wal", _) => {}
                    ("ht", Kind::Fsync) => {}
                    ("ht", k) => {
                        return Err(format!(
                            "{} on the hash-table file before the switch-over record is durable (the old state's merkle pages and occupancy map live there)",
                            k.name()
                        ))
                    }
                    ("ln", Kind::Write { off, data }) | ("bbn", Kind::Write { off, data }) => {
                        let (live, bump) = if class == "ln" { (&old.live_ln, old.ln_bump) } else { (&old.live_bbn, old.bbn_bump) };
                        let first = (*off / PAGE as u64) as u32;
                        let last = ((*off + data.len().max(1) as u64 - 1) / PAGE as u64) as u32;
                        for pn in first..=last {
                            if pn < bump {
                                if live.contains(&pn) {
                                    return Err(format!(
                                        "write to {class} page {pn} before the switch-over: the page is in use by the previously committed state (bump {bump})"
                                    ));
                                }
                                if pn == 0 {
                                    return Err(format!("write to the reserved page 0 of {class}"));
                                }
                                reused += 1;
                            }
                        }
                    }
                    ("ln", Kind::SetLen { len }) | ("bbn", Kind::SetLen { len }) => {
                        let bump = if class == "ln" { old.ln_bump } else { old.bbn_bump };
                        if *len < bump as u64 * PAGE as u64 {
                            return Err(format!("{class} truncated to {len} bytes, below the old bump {bump}"));
                        }
                    }
                    ("ln", Kind::Fsync) | ("bbn", Kind::Fsync) => {}
                    ("rollback", Kind::Append { .. }) | ("rollback", Kind::Fsync) | ("rollback", Kind::Create) => {}
                    ("rollback", Kind::SetLen { len }) => {
                        if let Some((live_end, _)) = old.segs.get(file) {
                            if *len < *live_end {
                                return Err(format!(
                                    "rollback segment {file} truncated to {len} before the switch-over, below the end {live_end} of a live record"
                                ));
                            }
                        }
                    }
                    ("rollback", Kind::Unlink) => {
                        if old.segs.get(file).map_or(false, |s| s.1) {
                            return Err(format!("rollback segment {file} holding a live record unlinked before the switch-over"));
                        }
                    }
                    ("rollback", Kind::Write { off, .. }) => {
                        if let Some((live_end, _)) = old.segs.get(file) {
                            if *off < *live_end {
                                return Err(format!("positioned write into the live part of rollback segment {file}"));
                            }
                        }
                    }
                    ("dir", _) => {}
                    (c, k) => return Err(format!("unexpected {} on {c} file '{file}' before the switch-over", k.name())),
                }
            }
        }
    }
    if reused > 0 {
        info.add("free_pages_reused", reused);
    }
    if reused > 0 && old.free_ln > 0 {
        info.bump("syncs_reusing_free_pages");
    }
    Ok(())
}

fn run_case<H: HK>(hist: &History, ctx: &Ctx) -> Result<CaseInfo, Violation> {
    let rec = Recorder::install();
    rec.unwatch();
    let obs = Obs { root: true, ..Default::default() };
    let mut r = Runner::<H>::new(hist, &obs, &ctx.scratch, 8 << 20)?;
    let dir = r.dir.clone();
    let mut syncs = 0u64;
    for (i, st) in hist.steps.iter().enumerate() {
        let judged = !matches!(st, Step::Reopen(_));
        let old = if judged {
            let img = iosim::read_dir_image(&dir).map_err(|e| Violation { step: i, msg: format!("INFRA: {e}") })?;
            Some(old_image(&img).map_err(|m| Violation { step: i, msg: format!("on-disk image before the step is not well-formed: {m}") })?)
        } else {
            None
        };
        if judged {
            rec.watch(&dir, None);
        }
        let out = r.step(i, st);
        let tr = rec.take();
        rec.unwatch();
        match out? {
            StepOutcome::Done => {}
            StepOutcome::Discard(w) => {
                let mut info = std::mem::take(&mut r.info);
                info.discarded = Some(w);
                return Ok(info);
            }
        }
        if let Some(old) = old {
            if !tr.is_empty() {
                let mut info = std::mem::take(&mut r.info);
                let res = judge(&old, &tr, &mut info);
                r.info = info;
                res.map_err(|m| Violation { step: i, msg: m })?;
                syncs += 1;
            }
        }
    }
    let mut info = std::mem::take(&mut r.info);
    r.finish()?;
    info.add("syncs_judged", syncs);
    let l = |k: &str| info.labels.get(k).copied().unwrap_or(0);
    info.nontrivial = l("syncs_reusing_free_pages") >= 1 && l("delete_existing") >= 1;
    Ok(info)
}

impl Check for C17 {
    type Case = History;
    const ID: &'static str = "C17";
    const LEVEL: &'static str = "fault_enumeration";
    fn rule() -> String {
        "for EVERY mutating file event (write, append, resize, create, unlink, fsync - from the I/O hook) of EVERY commit / rollback of proptest histories (all worker counts; large values; \
         free lists filled by earlier deletions and reused; rollback on in 60% with small segments), from the start of the operation until the fsync of the meta write has completed: the event is \
         judged against the PREVIOUS durable image decoded by the independent decoder right before the operation: a write to ln / bbn page pn requires pn to be a free-list entry or >= the old bump \
         (never a live leaf, overflow page, branch node, free-list page or page 0); resizes of ln / bbn never go below the old bump; no write / resize of the hash-table file at all; exactly one \
         write to meta; the WAL is unrestricted; rollback segments only grow (append / extend), are never truncated below the end of a live record nor unlinked while holding one. For an overlay \
         chain only the first commit of the step is judged. evaluations = cases; non-trivial = case with >= 1 judged sync that wrote to >= 1 page below the old bump (reuse of freed pages) after \
         deletes; labels count events judged".into()
    }
    fn assumptions() -> Vec<String> {
        vec!["the hook reports every mutating file operation (guarded by the shadow-vs-disk comparison of C03/C04)".into()]
    }
    fn cases(tier: Tier) -> u32 {
        tier.pick(1600, 16000)
    }
    fn strategy(tier: Tier) -> BoxedStrategy<History> {
        history_strategy(HistParams {
            max_steps: tier.pick(9, 18),
            max_entries: tier.pick(30, 60),
            bulk_n: tier.pick(500, 2500),
            big_values: true,
            rollback: 1,
            rollback_weight: 8,
            reopen_weight: 6,
            overlay_weight: 20,
            witness_weight: 0.0,
            ext4_weight: 3,
        })
        .boxed()
    }
    fn run(case: &History, ctx: &Ctx) -> Result<CaseInfo, Violation> {
        match case.cfg.hasher {
            HasherKind::Blake3 => run_case::<B3>(case, ctx),
            HasherKind::Sha2 => run_case::<S2>(case, ctx),
        }
    }
    fn brief(case: &History) -> String {
        case.brief()
    }
}
