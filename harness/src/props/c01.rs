//! C01 — committed key-value state equals the sequential model.

use crate::hist::{dispatch, history_strategy, CaseInfo, HistParams, History, Obs, Violation};
use crate::runner::{Check, Ctx, Tier};
use proptest::prelude::*;

pub struct C01;

pub fn nontrivial(info: &CaseInfo, commits_min: u64) -> bool {
    let l = |k: &str| info.labels.get(k).copied().unwrap_or(0);
    info.discarded.is_none()
        && l("commits") >= commits_min
        && (l("max_leaf_bytes") > 8192
            || l("steps_with_overflow_present") > 0
            || l("delete_existing") > 0
            || l("inleaf_overflow_migration") > 0)
}

impl Check for C01 {
    type Case = History;
    const ID: &'static str = "C01";
    const LEVEL: &'static str = "exploration";
    fn rule() -> String {
        "proptest histories of commits (sorted batches of read/write/delete/read-then-write over clustered and random keys, \
         value lengths straddling 1332/1333, 4092/4093, 15*4092(+1), 16*4092, 64KiB) interleaved with reopens under random \
         configurations; after every commit Nomt::read and a fresh Session::read are compared with a sequential map for touched keys, \
         32 untouched keys and absent probes (bit flips of present keys), full scan every 4th step and after a final reopen. One case in 24 is the forced shape 'bottom-level branch node filled to the byte' \
         (a bulk of two-to-a-leaf values filling the single branch node to 90..99%, then 50..70 commits of mostly one more - one leaf split, one more separator and pointer each -, optionally a 10% delete and more inserts). \
         Non-trivial = >=2 commits and (>8 KiB of in-leaf data at some point, i.e. >=2 leaves, or an overflow value present, or a delete \
         of an existing key, or an in-leaf<->overflow migration); distinct = distinct serialized case".into()
    }
    fn assumptions() -> Vec<String> {
        vec![
            "batches are sorted, duplicate-free, with truthful prior values (API precondition)".into(),
            "values larger than ~70 KiB and stores > 1e5 keys are not generated in the quick tier".into(),
        ]
    }
    fn cases(tier: Tier) -> u32 {
        tier.pick(3200, 30000)
    }
    fn strategy(tier: Tier) -> BoxedStrategy<History> {
        let general = history_strategy(HistParams {
            max_steps: tier.pick(10, 28),
            max_entries: tier.pick(40, 120),
            bulk_n: tier.pick(600, 4000),
            big_values: true,
            rollback: 1,
            rollback_weight: 0,
            reopen_weight: 12,
            overlay_weight: 15,
            witness_weight: 0.0,
            ext4_weight: 6,
        });
        // one case in 24: a bottom-level branch node walked through its capacity byte by byte
        if std::env::var_os("VERIF_ONLY_FAMILY").is_some() {
            // development aid: only the forced shape
            return crate::hist::bbn_fill_strategy(4).boxed();
        }
        prop_oneof![23 => general, 1 => crate::hist::bbn_fill_strategy(4)].boxed()
    }
    fn run(case: &History, ctx: &Ctx) -> Result<CaseInfo, Violation> {
        let obs = Obs {
            values: true,
            ..Default::default()
        };
        let mut info = dispatch(case, &obs, &ctx.scratch, ctx.tier.pick(6 << 20, 48 << 20))?;
        info.nontrivial = nontrivial(&info, 2);
        if crate::hist::is_bbn_fill(case) {
            info.bump("cases_branch_node_filled_to_capacity_family");
        }
        Ok(info)
    }
    fn brief(case: &History) -> String {
        case.brief()
    }
}
