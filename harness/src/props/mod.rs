pub mod c01;
pub mod c02;
pub mod c05;
pub mod c06;
pub mod c09;
pub mod c10;
pub mod c03;
pub mod c14;
pub mod core;
pub mod c12;
pub mod c16;
pub mod c13;
pub mod c11;
pub mod c17;
pub mod c15;
pub mod c20;

/// Run `f` on a helper thread; exit with code 4 (hang verdict) if it does not return in time.
pub fn c14_hang_guard<T: Send + 'static>(what: &str, secs: u64, f: impl FnOnce() -> T + Send + 'static) -> T {
    c14::with_hang_guard(what, secs, f)
}
