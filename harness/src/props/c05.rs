//! C05 — every key has a verifying, truthful path proof.

use crate::hist::{dispatch, history_strategy, CaseInfo, HistParams, History, Obs, Violation};
use crate::runner::{Check, Ctx, Tier};
use proptest::strategy::{BoxedStrategy, Strategy};

pub struct C05;

impl Check for C05 {
    type Case = History;
    const ID: &'static str = "C05";
    const LEVEL: &'static str = "exploration";
    fn rule() -> String {
        "states reached by proptest histories (clustered keys, bulk inserts/deletes crossing the page-elision threshold, reopens = cold cache, \
         1 MiB page cache = evictions, sessions layered on uncommitted overlay chains) x query keys (present keys; absent keys obtained by flipping \
         a random bit of a present key with kept/zeroed/randomised tail; random keys; all-zero/all-one). Oracle: Session::prove is Ok, the proof verifies \
         against session.prev_root == reference root both by nomt's verifier and by an independent hash chain, confirm_value/confirm_nonexistence give exactly \
         the model's answer (and false for a wrong value hash), and siblings/terminal equal the reference trie lookup; the path proofs handed out for distinct terminals are also aggregated into a multi-proof that must verify and answer alike (C07 on store-produced proofs). A twelfth of the cases additionally crash their last operation at every I/O event boundary and request proofs from every recovered store. Non-trivial case = >= 1 proof with >= 7 \
         siblings (path leaves the root page); distinct = distinct serialized case".into()
    }
    fn cases(tier: Tier) -> u32 {
        tier.pick(2400, 24000)
    }
    fn strategy(tier: Tier) -> BoxedStrategy<History> {
        history_strategy(HistParams {
            max_steps: tier.pick(8, 20),
            max_entries: tier.pick(30, 80),
            bulk_n: tier.pick(500, 3000),
            big_values: false,
            rollback: 0,
            rollback_weight: 0,
            reopen_weight: 15,
            overlay_weight: 25,
            witness_weight: 0.0,
            ext4_weight: 3,
        })
        .boxed()
    }
    fn run(case: &History, ctx: &Ctx) -> Result<CaseInfo, Violation> {
        let obs = Obs {
            proofs: ctx.tier.pick(40, 120),
            proof_shape: true,
            ..Default::default()
        };
        let mut info = dispatch(case, &obs, &ctx.scratch, 4 << 20)?;
        // committed states reached THROUGH A CRASH RECOVERY are committed states too: a twelfth of the cases crash
        // their last operation at every I/O event boundary (C03 engine); proofs for present and absent keys are
        // requested from every recovered store and judged against the state it shows.
        if case.salt % 12 == 0 && case.steps.len() >= 2 && info.discarded.is_none() {
            let fc = crate::crash::FaultCase { hist: case.clone(), choice_seed: case.salt };
            let fp = crate::crash::FaultParams {
                mode: crate::crash::Mode::Crash,
                max_images: ctx.tier.pick(24, 300),
                nested: 1,
                max_nested_images: 8,
                randoms: 1,
            };
            let r = match case.cfg.hasher {
                crate::reftrie::HasherKind::Blake3 | crate::reftrie::HasherKind::TailLabel => crate::crash::run_fault_case::<crate::driver::B3>(&fc, &fp, &ctx.scratch),
                crate::reftrie::HasherKind::Sha2 => crate::crash::run_fault_case::<crate::driver::S2>(&fc, &fp, &ctx.scratch),
            };
            let ci = r.map_err(|v| Violation { step: v.step, msg: format!("[state reached through crash recovery] {}", v.msg) })?;
            info.add("recovered_states_proved", ci.labels.get("images_verified").copied().unwrap_or(0));
            info.bump("cases_with_crash_recovery");
        }
        let l = |k: &str| info.labels.get(k).copied().unwrap_or(0);
        info.nontrivial = info.discarded.is_none() && l("proofs_beyond_root_page") >= 1;
        Ok(info)
    }
    fn brief(case: &History) -> String {
        case.brief()
    }
}
