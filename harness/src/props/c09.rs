//! C09 — rollback restores exactly the state n commits ago.

use crate::hist::{dispatch, history_strategy, CaseInfo, HistParams, History, Obs, Violation};
use crate::runner::{Check, Ctx, Tier};
use proptest::strategy::{BoxedStrategy, Strategy};

pub struct C09;

impl Check for C09 {
    type Case = History;
    const ID: &'static str = "C09";
    const LEVEL: &'static str = "exploration";
    fn rule() -> String {
        "proptest histories over {commit via session, commit via overlay chain of 1..3 (one rollback unit each), rollback(n) with n in 0..7, reopen} with rollback \
         enabled, max_rollback_log_len in {0,1,2,3,5,100} and rollback segment size override in {1,2,3 records, default} (hook) so segments roll over and get pruned; \
         large values included. Oracle: n=0 is a no-op; n <= min(commits, log length) must succeed and values (full scan), root and seqn equal the model snapshot; \
         n > commits must fail; in between either, but Ok must be exact; every Err leaves root/seqn/values/poison flag unchanged; rollback(k);rollback(m) and \
         rollback(k+m) are judged against the same snapshot stack; the store must reopen after every history and keep serving rollbacks. Non-trivial = a successful \
         rollback after >= 1 pruning, or of exactly everything retained, or after a reopen; distinct = distinct serialized case".into()
    }
    fn assumptions() -> Vec<String> {
        vec!["rollback flag and max_rollback_log_len are held constant across reopens".into()]
    }
    fn cases(tier: Tier) -> u32 {
        tier.pick(4800, 48000)
    }
    fn strategy(tier: Tier) -> BoxedStrategy<History> {
        history_strategy(HistParams {
            max_steps: tier.pick(14, 30),
            max_entries: tier.pick(12, 40),
            bulk_n: tier.pick(60, 600),
            big_values: true,
            rollback: 2,
            rollback_weight: 45,
            reopen_weight: 10,
            overlay_weight: 25,
            witness_weight: 0.0,
            ext4_weight: 3,
        })
        .boxed()
    }
    fn run(case: &History, ctx: &Ctx) -> Result<CaseInfo, Violation> {
        let obs = Obs {
            values: true,
            root: true,
            ..Default::default()
        };
        let mut info = dispatch(case, &obs, &ctx.scratch, 2 << 20)?;
        let l = |k: &str| info.labels.get(k).copied().unwrap_or(0);
        info.nontrivial = info.discarded.is_none()
            && l("rollbacks_ok") >= 1
            && (l("rollback_after_pruning") >= 1 || l("rollback_all_retained") >= 1 || l("reopens") >= 2);
        Ok(info)
    }
    fn brief(case: &History) -> String {
        case.brief()
    }
}
