//! Pure nomt-core properties: C07 (multi-proof equivalence), C08 (soundness), C18 (totality).
//!
//! Ground truth comes only from the key-value set S through the reference trie.

use crate::driver::{take_panics, B3, HK, S2, TL};
use crate::gen::{self, KeyRecipe};
use crate::hist::{CaseInfo, Violation};
use crate::reftrie::{Node, RefTrie, Terminal};
use crate::runner::{Check, Ctx, Tier};
use crate::util::{get_bit, hx8, pick, set_bit, Key, SplitMix};
use bitvec::prelude::*;
use nomt_core::proof::{
    verify_multi_proof, verify_multi_proof_update, verify_update, MultiPathProof, MultiProof, PathProof,
    PathProofTerminal, PathUpdate, VerifiedMultiProof, VerifiedPathProof,
};
use nomt_core::trie::LeafData;
use nomt_core::trie_pos::TriePosition;
use proptest::prelude::*;
use serde::{Deserialize, Serialize};
use std::collections::BTreeMap;
use std::panic::{catch_unwind, AssertUnwindSafe};

#[derive(Clone, Debug, Serialize, Deserialize, PartialEq, Eq)]
pub struct OpSpec {
    /// which chosen terminal (monotone index)
    pub term: u16,
    /// 0 = the terminal's own leaf key (if any), 1.. = a key under the terminal's prefix
    pub own: bool,
    pub suffix: u64,
    /// None = delete
    pub val: Option<u8>,
}

#[derive(Clone, Debug, Serialize, Deserialize, PartialEq, Eq)]
pub struct Mutn {
    pub kind: u8,
    pub a: u16,
    pub b: u16,
    pub r: u64,
}

#[derive(Clone, Debug, Serialize, Deserialize, PartialEq, Eq)]
pub struct CoreCase {
    pub salt: u64,
    pub sha2: bool,
    /// use the non-MSB labelling hasher (takes precedence over `sha2`)
    #[serde(default)]
    pub tail_label: bool,
    pub keys: Vec<KeyRecipe>,
    /// query keys: index into S (monotone), bit to flip (255 + anything = keep), tail mode
    pub queries: Vec<(u16, u16, u8)>,
    pub ops: Vec<OpSpec>,
    pub muts: Vec<Mutn>,
    /// Which root to verify against: 0 honest root, 1 random, 2 the root the object hashes to (multi only)
    pub root_mode: u8,
}

pub fn case_strategy(max_keys: usize, max_muts: usize) -> impl Strategy<Value = CoreCase> {
    (
        any::<u64>(),
        prop::bool::weighted(0.25),
        prop::collection::vec(gen::recipe_strategy(), 0..=max_keys),
        prop::collection::vec((any::<u16>(), prop_oneof![3 => 0u16..256, 1 => Just(300u16)], 0u8..3), 1..=10),
        prop::collection::vec(
            (any::<u16>(), prop::bool::weighted(0.3), any::<u64>(), prop::option::weighted(0.7, any::<u8>()))
                .prop_map(|(term, own, suffix, val)| OpSpec { term, own, suffix, val }),
            0..=8,
        ),
        prop::collection::vec(
            (0u8..32, any::<u16>(), any::<u16>(), any::<u64>()).prop_map(|(kind, a, b, r)| Mutn { kind, a, b, r }),
            0..=max_muts,
        ),
        prop_oneof![6 => Just(0u8), 1 => Just(1u8), 3 => Just(2u8)],
    )
        .prop_map(|(salt, sha2, keys, queries, ops, muts, root_mode)| CoreCase {
            salt,
            sha2,
            // one case in 7 runs with the non-MSB labelling hasher
            tail_label: salt % 7 == 0,
            keys,
            queries,
            ops,
            muts,
            root_mode,
        })
}

// ------------------------------------------------------------------ building honest objects

pub struct World {
    pub kv: Vec<(Key, [u8; 32])>,
    pub root: Node,
}

fn vh_of(k: &Key, tag: u8) -> [u8; 32] {
    let mut s = SplitMix(u64::from_le_bytes(k[8..16].try_into().unwrap()) ^ ((tag as u64) << 56) ^ 0x5151);
    s.key()
}

pub fn build_world<H: HK>(case: &CoreCase) -> World {
    let mut m: BTreeMap<Key, [u8; 32]> = BTreeMap::new();
    for r in &case.keys {
        let k = gen::make_key(case.salt, r);
        m.insert(k, vh_of(&k, 0));
    }
    let kv: Vec<(Key, [u8; 32])> = m.into_iter().collect();
    let root = RefTrie::new(H::KIND, &kv).root();
    World { kv, root }
}

pub fn query_key(case: &CoreCase, w: &World, q: &(u16, u16, u8)) -> Key {
    if w.kv.is_empty() {
        return SplitMix(case.salt ^ q.0 as u64).key();
    }
    let mut k = w.kv[pick(q.0, w.kv.len())].0;
    if q.1 < 256 {
        let b = q.1 as usize;
        let v = get_bit(&k, b);
        set_bit(&mut k, b, !v);
        match q.2 {
            1 => {
                for i in b + 1..256 {
                    set_bit(&mut k, i, false)
                }
            }
            2 => {
                let r = SplitMix(case.salt ^ ((q.0 as u64) << 16) ^ q.1 as u64).key();
                for i in b + 1..256 {
                    set_bit(&mut k, i, get_bit(&r, i))
                }
            }
            _ => {}
        }
    }
    k
}

fn position(q: &Key, depth: usize) -> TriePosition {
    if depth == 0 {
        TriePosition::new()
    } else {
        TriePosition::from_path_and_depth(*q, depth as u16)
    }
}

/// Honest path proof for `q` from the reference trie. Returns (proof, terminal depth).
pub fn honest_proof<H: HK>(w: &World, q: &Key) -> (PathProof, usize) {
    let t = RefTrie::new(H::KIND, &w.kv);
    let (d, term, sibs) = t.lookup(q);
    let terminal = match term {
        Terminal::Leaf { key, vh } => PathProofTerminal::Leaf(LeafData {
            key_path: key,
            value_hash: vh,
        }),
        Terminal::Terminator => PathProofTerminal::Terminator(position(q, d)),
    };
    (
        PathProof {
            terminal,
            siblings: sibs,
        },
        d,
    )
}

/// Distinct terminals (sorted by path) reached by the case's queries, with honest proofs.
pub fn chosen_terminals<H: HK>(case: &CoreCase, w: &World) -> Vec<(Key, PathProof, usize)> {
    let mut by_prefix: BTreeMap<Vec<bool>, (Key, PathProof, usize)> = BTreeMap::new();
    for q in &case.queries {
        let k = query_key(case, w, q);
        let (p, d) = honest_proof::<H>(w, &k);
        let prefix: Vec<bool> = (0..d).map(|i| get_bit(&k, i)).collect();
        by_prefix.entry(prefix).or_insert((k, p, d));
    }
    // sort by terminal path as the multi-proof expects (terminal.path(): leaf key or position)
    let mut v: Vec<(Key, PathProof, usize)> = by_prefix.into_values().collect();
    v.sort_by(|a, b| a.1.terminal.path().cmp(b.1.terminal.path()));
    v
}

pub fn resolve_ops(case: &CoreCase, terms: &[(Key, PathProof, usize)]) -> Vec<(Key, Option<[u8; 32]>)> {
    let mut m: BTreeMap<Key, Option<[u8; 32]>> = BTreeMap::new();
    if terms.is_empty() {
        return Vec::new();
    }
    for o in &case.ops {
        let (qk, p, d) = &terms[pick(o.term, terms.len())];
        let k = match (&p.terminal, o.own) {
            (PathProofTerminal::Leaf(l), true) => l.key_path,
            _ => {
                let mut k = *qk;
                let r = SplitMix(o.suffix).key();
                for i in *d..256 {
                    set_bit(&mut k, i, get_bit(&r, i));
                }
                k
            }
        };
        m.insert(k, o.val.map(|t| vh_of(&k, t.max(1))));
    }
    m.into_iter().collect()
}

pub fn apply_ops(kv: &[(Key, [u8; 32])], ops: &[(Key, Option<[u8; 32]>)]) -> Vec<(Key, [u8; 32])> {
    let mut m: BTreeMap<Key, [u8; 32]> = kv.iter().cloned().collect();
    for (k, v) in ops {
        match v {
            Some(v) => {
                m.insert(*k, *v);
            }
            None => {
                m.remove(k);
            }
        }
    }
    m.into_iter().collect()
}

/// Probe keys: members, bit flips of members, keys under terminal prefixes, random.
pub fn probes(case: &CoreCase, w: &World, terms: &[(Key, PathProof, usize)]) -> Vec<Key> {
    let mut out: Vec<Key> = w.kv.iter().map(|(k, _)| *k).collect();
    let mut s = SplitMix(case.salt ^ 0x9090);
    for (k, _) in w.kv.iter().take(20) {
        for _ in 0..3 {
            let mut x = *k;
            let b = s.below(256) as usize;
            let v = get_bit(&x, b);
            set_bit(&mut x, b, !v);
            out.push(x);
        }
        let mut x = *k;
        x[31] ^= 1;
        out.push(x);
    }
    for (qk, _, d) in terms {
        out.push(*qk);
        let mut x = *qk;
        let r = s.key();
        for i in *d..256 {
            set_bit(&mut x, i, get_bit(&r, i));
        }
        out.push(x);
    }
    for _ in 0..4 {
        out.push(s.key());
    }
    out.sort();
    out.dedup();
    out
}

fn truth<'a>(kv: &'a [(Key, [u8; 32])], k: &Key) -> Option<&'a [u8; 32]> {
    kv.binary_search_by(|(x, _)| x.cmp(k)).ok().map(|i| &kv[i].1)
}

pub fn cu<T>(f: impl FnOnce() -> T) -> Result<T, String> {
    let _ = take_panics();
    catch_unwind(AssertUnwindSafe(f)).map_err(|_| take_panics().first().cloned().unwrap_or_else(|| "<panic>".into()))
}

// ------------------------------------------------------------------ C07

fn c07_run<H: HK>(case: &CoreCase) -> Result<CaseInfo, Violation> {
    let mut info = CaseInfo::default();
    let w = build_world::<H>(case);
    let terms = chosen_terminals::<H>(case, &w);
    let v = |m: String| Violation { step: 0, msg: m };
    let proofs: Vec<PathProof> = terms.iter().map(|t| t.1.clone()).collect();
    let multi = cu(|| MultiProof::from_path_proofs(proofs.clone())).map_err(|p| v(format!("panic in MultiProof::from_path_proofs on sorted honest proofs: {p}")))?;
    let vm = cu(|| verify_multi_proof::<H::N>(&multi, w.root))
        .map_err(|p| v(format!("panic in verify_multi_proof on an honest multi-proof: {p}")))?
        .map_err(|e| v(format!("honest multi-proof of {} paths does not verify: {e:?}", terms.len())))?;
    // individual verification
    let mut singles: Vec<VerifiedPathProof> = Vec::new();
    for (qk, p, _d) in &terms {
        let s = cu(|| p.verify::<H::N>(qk.view_bits::<Msb0>(), w.root))
            .map_err(|p| v(format!("panic in PathProof::verify (honest): {p}")))?
            .map_err(|e| v(format!("honest path proof does not verify: {e:?}")))?;
        singles.push(s);
    }
    // queries
    let mut answered = 0u64;
    for k in probes(case, &w, &terms) {
        // which single proof has k in scope?
        let owner = terms.iter().position(|(qk, _, d)| (0..*d).all(|i| get_bit(qk, i) == get_bit(&k, i)));
        let leaf_true = LeafData {
            key_path: k,
            value_hash: truth(&w.kv, &k).cloned().unwrap_or([9u8; 32]),
        };
        // also the neighbouring leaf's value hash under the probe's key (must never be confirmed)
        let mut leaves = vec![leaf_true];
        if let Some(i) = owner {
            if let PathProofTerminal::Leaf(l) = &terms[i].1.terminal {
                leaves.push(LeafData {
                    key_path: k,
                    value_hash: l.value_hash,
                });
            }
        }
        let m_non = cu(|| vm.confirm_nonexistence(&k)).map_err(|p| v(format!("panic in confirm_nonexistence: {p}")))?;
        let m_idx = cu(|| vm.find_index_for(&k)).map_err(|p| v(format!("panic in find_index_for: {p}")))?;
        match owner {
            None => {
                if m_non.is_ok() || m_idx.is_ok() {
                    return Err(v(format!("key {} is out of scope of every aggregated path but the multi-proof answers", hx8(&k))));
                }
                for leaf in &leaves {
                    let r = cu(|| vm.confirm_value(leaf)).map_err(|p| v(format!("panic in confirm_value: {p}")))?;
                    if r.is_ok() {
                        return Err(v(format!("key {} out of scope but confirm_value answers", hx8(&k))));
                    }
                }
            }
            Some(i) => {
                let s_non = singles[i].confirm_nonexistence(&k).ok();
                if m_non.ok() != s_non {
                    return Err(v(format!(
                        "confirm_nonexistence({}) differs: multi-proof {:?}, path proof {:?}",
                        hx8(&k),
                        m_non.ok(),
                        s_non
                    )));
                }
                let Ok(idx) = m_idx else {
                    return Err(v(format!("find_index_for({}) fails although a path covers it", hx8(&k))));
                };
                let wi = cu(|| vm.confirm_nonexistence_with_index(&k, idx))
                    .map_err(|p| v(format!("panic in confirm_nonexistence_with_index: {p}")))?;
                if wi.ok() != s_non {
                    return Err(v(format!("confirm_nonexistence_with_index({}) differs from the path proof", hx8(&k))));
                }
                for leaf in &leaves {
                    let s_val = singles[i].confirm_value(leaf).ok();
                    let m_val = cu(|| vm.confirm_value(leaf)).map_err(|p| v(format!("panic in confirm_value: {p}")))?;
                    if m_val.ok() != s_val {
                        return Err(v(format!(
                            "confirm_value({}, {}) differs: multi-proof says {:?}, path proof says {:?}",
                            hx8(&k),
                            hx8(&leaf.value_hash),
                            m_val.ok(),
                            s_val
                        )));
                    }
                    let wi = cu(|| vm.confirm_value_with_index(leaf, idx))
                        .map_err(|p| v(format!("panic in confirm_value_with_index: {p}")))?;
                    if wi.ok() != s_val {
                        return Err(v(format!("confirm_value_with_index({}) differs from the path proof", hx8(&k))));
                    }
                    // and both agree with the truth
                    let want = truth(&w.kv, &k) == Some(&leaf.value_hash);
                    if s_val != Some(want) {
                        return Err(v(format!("path proof confirm_value({}) = {:?}, truth {}", hx8(&k), s_val, want)));
                    }
                }
                answered += 1;
            }
        }
    }
    // updates
    let ops = resolve_ops(case, &terms);
    let want_root = RefTrie::new(H::KIND, &apply_ops(&w.kv, &ops)).root();
    let m_upd = cu(|| verify_multi_proof_update::<H::N>(&vm, ops.clone()))
        .map_err(|p| v(format!("panic in verify_multi_proof_update (honest proof, in-scope sorted ops): {p}")))?
        .map_err(|e| v(format!("verify_multi_proof_update fails on in-scope sorted ops: {e:?}")))?;
    if m_upd != want_root {
        return Err(v(format!(
            "verify_multi_proof_update gives {} but the reference root of the updated set is {} ({} ops over {} paths)",
            hx8(&m_upd),
            hx8(&want_root),
            ops.len(),
            terms.len()
        )));
    }
    // per-path update verifier
    let mut updates: Vec<PathUpdate> = Vec::new();
    for (i, (qk, _, d)) in terms.iter().enumerate() {
        let mine: Vec<(Key, Option<[u8; 32]>)> = ops
            .iter()
            .filter(|(k, _)| (0..*d).all(|j| get_bit(qk, j) == get_bit(k, j)))
            .cloned()
            .collect();
        if !mine.is_empty() {
            updates.push(PathUpdate {
                inner: singles[i].clone(),
                ops: mine,
            });
        }
    }
    updates.sort_by(|a, b| a.inner.path().cmp(b.inner.path()));
    let s_upd = cu(|| verify_update::<H::N>(w.root, &updates))
        .map_err(|p| v(format!("panic in verify_update (honest): {p}")))?
        .map_err(|e| v(format!("verify_update fails on honest path updates: {e:?}")))?;
    if s_upd != want_root {
        return Err(v(format!("verify_update gives {} but reference says {}", hx8(&s_upd), hx8(&want_root))));
    }
    info.add("paths", terms.len() as u64);
    info.max("max_multiproof_siblings", multi.siblings.len() as u64);
    info.max("max_multiproof_paths", terms.len() as u64);
    if multi.siblings.len() > 65_535 {
        info.bump("multiproofs_with_more_than_65535_siblings");
    }
    info.add("queries_in_scope", answered);
    info.add("ops", ops.len() as u64);
    info.nontrivial = terms.len() >= 2 && !ops.is_empty() && multi.siblings.len() > 0;
    Ok(info)
}

// ------------------------------------------------------------------ mutation

fn rnd_node(r: u64) -> Node {
    SplitMix(r).key()
}

fn mutate_terminal(t: &mut PathProofTerminal, m: &Mutn, w: &World, sub: u8) {
    match sub {
        0 => {
            // flip a bit of leaf key / change position
            match t {
                PathProofTerminal::Leaf(l) => {
                    let b = (m.b % 256) as usize;
                    let v = get_bit(&l.key_path, b);
                    set_bit(&mut l.key_path, b, !v);
                }
                PathProofTerminal::Terminator(p) => {
                    let d = (m.b % 257) as usize;
                    let k = rnd_node(m.r);
                    *p = position(&k, d);
                }
            }
        }
        1 => {
            if let PathProofTerminal::Leaf(l) = t {
                l.value_hash[(m.b % 32) as usize] ^= 1 << (m.r % 8);
            }
        }
        2 => {
            // leaf <-> terminator
            *t = match t {
                PathProofTerminal::Leaf(l) => PathProofTerminal::Terminator(position(&l.key_path, (m.b % 257) as usize)),
                PathProofTerminal::Terminator(p) => {
                    let key = if !w.kv.is_empty() && m.r % 2 == 0 {
                        w.kv[pick(m.b, w.kv.len())]
                    } else {
                        (p.raw_path(), rnd_node(m.r))
                    };
                    PathProofTerminal::Leaf(LeafData {
                        key_path: key.0,
                        value_hash: key.1,
                    })
                }
            };
        }
        3 => {
            // terminator position with the same prefix but a different depth / extra bits
            if let PathProofTerminal::Terminator(p) = t {
                let mut raw = p.raw_path();
                let extra = rnd_node(m.r);
                for i in p.depth() as usize..256 {
                    set_bit(&mut raw, i, get_bit(&extra, i));
                }
                let d = (m.b % 257) as usize;
                *p = position(&raw, d);
            }
        }
        _ => {
            // replace by another member leaf
            if !w.kv.is_empty() {
                let (k, vh) = w.kv[pick(m.b, w.kv.len())];
                *t = PathProofTerminal::Leaf(LeafData {
                    key_path: k,
                    value_hash: vh,
                });
            }
        }
    }
}

fn mutate_path(p: &mut PathProof, m: &Mutn, w: &World) {
    let n = p.siblings.len();
    match m.kind % 12 {
        0 if n > 0 => p.siblings[m.a as usize % n][(m.b % 32) as usize] ^= 1 << (m.r % 8),
        1 if n > 0 => {
            p.siblings.remove(m.a as usize % n);
        }
        2 => p.siblings.insert(m.a as usize % (n + 1), rnd_node(m.r)),
        3 if n > 1 => p.siblings.swap(m.a as usize % n, m.b as usize % n),
        4 => p.siblings.truncate(m.a as usize % (n + 1)),
        5 if n > 0 => {
            let x = p.siblings[m.a as usize % n];
            p.siblings.push(x)
        }
        6 => mutate_terminal(&mut p.terminal, m, w, 0),
        7 => mutate_terminal(&mut p.terminal, m, w, 1),
        8 => mutate_terminal(&mut p.terminal, m, w, 2),
        9 => mutate_terminal(&mut p.terminal, m, w, 3),
        10 => mutate_terminal(&mut p.terminal, m, w, 4),
        11 if n > 0 => p.siblings[m.a as usize % n] = [0u8; 32],
        _ => {}
    }
}

fn special_depth(m: &Mutn, cur: usize) -> usize {
    match m.b % 12 {
        0 => 0,
        1 => cur.saturating_sub(1),
        2 => cur.saturating_add(1),
        3 => cur.saturating_sub((m.r % 8) as usize),
        4 => cur.saturating_add((m.r % 8) as usize),
        5 => 255,
        6 => 256,
        7 => 257,
        8 => usize::MAX,
        9 => (m.r % 300) as usize,
        10 => usize::MAX / 2,
        _ => 1,
    }
}

fn mutate_multi(mp: &mut MultiProof, m: &Mutn, w: &World) {
    let np = mp.paths.len();
    let ns = mp.siblings.len();
    match m.kind % 16 {
        0 if np > 0 => {
            let i = m.a as usize % np;
            mp.paths[i].depth = special_depth(m, mp.paths[i].depth);
        }
        1 if np > 1 => mp.paths.swap(m.a as usize % np, m.b as usize % np),
        2 if np > 0 => {
            let x = mp.paths[m.a as usize % np].clone();
            mp.paths.insert(m.b as usize % (np + 1), x)
        }
        3 if np > 0 => {
            mp.paths.remove(m.a as usize % np);
        }
        4 if ns > 0 => mp.siblings[m.a as usize % ns][(m.b % 32) as usize] ^= 1 << (m.r % 8),
        5 if ns > 0 => {
            mp.siblings.remove(m.a as usize % ns);
        }
        6 => mp.siblings.insert(m.a as usize % (ns + 1), rnd_node(m.r)),
        7 if ns > 1 => {
            let x = mp.siblings.remove(m.a as usize % ns);
            mp.siblings.insert(m.b as usize % ns, x)
        }
        8 => mp.siblings.truncate(m.a as usize % (ns + 1)),
        9 if np > 0 => {
            let i = m.a as usize % np;
            mutate_terminal(&mut mp.paths[i].terminal, m, w, (m.r % 5) as u8)
        }
        10 => {
            // add a foreign path
            let k = rnd_node(m.r);
            mp.paths.insert(
                m.a as usize % (np + 1),
                MultiPathProof {
                    terminal: PathProofTerminal::Terminator(position(&k, (m.b % 257) as usize)),
                    depth: (m.b % 257) as usize,
                },
            )
        }
        11 if np > 0 => {
            // make depth consistent with a (possibly mutated) terminator position: redundant encodings
            let i = m.a as usize % np;
            if let PathProofTerminal::Terminator(p) = &mp.paths[i].terminal {
                mp.paths[i].depth = p.depth() as usize;
            }
        }
        12 if np > 0 => {
            // terminator position longer than its depth (extra bits beyond the proven depth)
            let i = m.a as usize % np;
            let d = mp.paths[i].depth;
            if let PathProofTerminal::Terminator(p) = &mut mp.paths[i].terminal {
                let mut raw = p.raw_path();
                let extra = rnd_node(m.r);
                for j in d.min(256)..256 {
                    set_bit(&mut raw, j, get_bit(&extra, j));
                }
                let nd = d.min(255).saturating_add(1 + (m.b % 16) as usize).min(256);
                *p = position(&raw, nd);
            }
        }
        13 => {
            for _ in 0..(m.b % 4) {
                mp.siblings.push(rnd_node(m.r ^ ns as u64))
            }
        }
        14 if np > 0 => {
            // shallower claimed depth for a leaf terminal while dropping as many unique siblings
            let i = m.a as usize % np;
            let cut = 1 + (m.b % 3) as usize;
            mp.paths[i].depth = mp.paths[i].depth.saturating_sub(cut);
        }
        _ => {}
    }
}

// ------------------------------------------------------------------ statements judged against S

struct Judge<'a> {
    kv: &'a [(Key, [u8; 32])],
    judged: u64,
    panics: Vec<String>,
}

impl<'a> Judge<'a> {
    fn path_statements<H: HK>(&mut self, v: &VerifiedPathProof, probes: &[Key], ops: &[(Key, Option<[u8; 32]>)], root: Node, what: &str) -> Result<(), String> {
        for k in probes {
            if let Some(vh) = truth(self.kv, k) {
                // a true value statement may or may not be confirmed; a false one must not
                let mut wrong = *vh;
                wrong[3] ^= 0x10;
                match cu(|| v.confirm_value(&LeafData { key_path: *k, value_hash: wrong })) {
                    Ok(Ok(true)) => return Err(format!("{what}: verified path proof confirms a wrong value for present key {}", hx8(k))),
                    Err(p) => self.panics.push(p),
                    _ => {}
                }
                match cu(|| v.confirm_nonexistence(k)) {
                    Ok(Ok(true)) => return Err(format!("{what}: verified path proof confirms non-existence of present key {}", hx8(k))),
                    Err(p) => self.panics.push(p),
                    _ => {}
                }
            } else {
                for vh in [[9u8; 32], v.terminal().map(|l| l.value_hash).unwrap_or([7u8; 32])] {
                    match cu(|| v.confirm_value(&LeafData { key_path: *k, value_hash: vh })) {
                        Ok(Ok(true)) => return Err(format!("{what}: verified path proof confirms a value for absent key {}", hx8(k))),
                        Err(p) => self.panics.push(p),
                        _ => {}
                    }
                }
            }
            self.judged += 1;
        }
        // update through the verified proof
        let in_scope: Vec<(Key, Option<[u8; 32]>)> = ops
            .iter()
            .filter(|(k, _)| k.view_bits::<Msb0>().starts_with(v.path()))
            .cloned()
            .collect();
        for ops in [in_scope, ops.to_vec()] {
            if ops.is_empty() {
                continue;
            }
            let upd = [PathUpdate {
                inner: v.clone(),
                ops: ops.clone(),
            }];
            match cu(|| verify_update::<H::N>(root, &upd)) {
                Ok(Ok(r)) => {
                    let want = RefTrie::new(H::KIND, &apply_ops(self.kv, &ops)).root();
                    if r != want {
                        return Err(format!(
                            "{what}: verify_update through a verified path proof returns {} but the true root of the updated set is {}",
                            hx8(&r),
                            hx8(&want)
                        ));
                    }
                    self.judged += 1;
                }
                Ok(Err(_)) => {}
                Err(p) => self.panics.push(p),
            }
            // the same ops in an order that is not sorted (distinct keys): reject, or return the true root
            let want = RefTrie::new(H::KIND, &apply_ops(self.kv, &ops)).root();
            for bad in bad_op_lists(&ops) {
                let mut keys: Vec<Key> = bad.iter().map(|(k, _)| *k).collect();
                keys.sort();
                keys.dedup();
                if keys.len() != bad.len() {
                    continue;
                }
                let upd = [PathUpdate { inner: v.clone(), ops: bad.clone() }];
                match cu(|| verify_update::<H::N>(root, &upd)) {
                    Ok(Ok(r)) if r != want => {
                        return Err(format!(
                            "{what}: verify_update accepts an op list that is not sorted ({} ops) and returns {} although the true root of the updated set is {}",
                            bad.len(),
                            hx8(&r),
                            hx8(&want)
                        ))
                    }
                    Ok(Ok(_)) => self.judged += 1,
                    Ok(Err(_)) => {}
                    Err(p) => self.panics.push(p),
                }
            }
        }
        Ok(())
    }

    fn multi_statements<H: HK>(&mut self, v: &VerifiedMultiProof, probes: &[Key], ops: &[(Key, Option<[u8; 32]>)], what: &str) -> Result<(), String> {
        for k in probes {
            if let Some(vh) = truth(self.kv, k) {
                let mut wrong = *vh;
                wrong[3] ^= 0x10;
                match cu(|| v.confirm_value(&LeafData { key_path: *k, value_hash: wrong })) {
                    Ok(Ok(true)) => return Err(format!("{what}: verified multi-proof confirms a wrong value for present key {}", hx8(k))),
                    Err(p) => self.panics.push(p),
                    _ => {}
                }
                match cu(|| v.confirm_nonexistence(k)) {
                    Ok(Ok(true)) => return Err(format!("{what}: verified multi-proof confirms non-existence of present key {}", hx8(k))),
                    Err(p) => self.panics.push(p),
                    _ => {}
                }
            } else {
                match cu(|| v.confirm_value(&LeafData { key_path: *k, value_hash: [9u8; 32] })) {
                    Ok(Ok(true)) => return Err(format!("{what}: verified multi-proof confirms a value for absent key {}", hx8(k))),
                    Err(p) => self.panics.push(p),
                    _ => {}
                }
                // the value hash of whichever leaf it lands on
                if let Ok(Ok(_)) = cu(|| v.find_index_for(k)) {
                    for (mk, mvh) in self.kv.iter().take(6) {
                        let _ = mk;
                        match cu(|| v.confirm_value(&LeafData { key_path: *k, value_hash: *mvh })) {
                            Ok(Ok(true)) => return Err(format!("{what}: verified multi-proof confirms a value for absent key {}", hx8(k))),
                            Err(p) => self.panics.push(p),
                            _ => {}
                        }
                    }
                }
            }
            self.judged += 1;
        }
        if !ops.is_empty() {
            match cu(|| verify_multi_proof_update::<H::N>(v, ops.to_vec())) {
                Ok(Ok(r)) => {
                    let want = RefTrie::new(H::KIND, &apply_ops(self.kv, ops)).root();
                    if r != want {
                        return Err(format!(
                            "{what}: verify_multi_proof_update through a verified multi-proof returns {} but the true root of the updated set is {}",
                            hx8(&r),
                            hx8(&want)
                        ));
                    }
                    self.judged += 1;
                }
                Ok(Err(_)) => {}
                Err(p) => self.panics.push(p),
            }
            // op lists outside the documented domain (not sorted): rejecting them is fine, but an accepted one must
            // still give the true root of the updated set (the ops are a set of distinct keys, so their order does
            // not change the set); lists with a repeated key have no well-defined result and are not judged here
            let want = RefTrie::new(H::KIND, &apply_ops(self.kv, ops)).root();
            for bad in bad_op_lists(ops) {
                let mut keys: Vec<Key> = bad.iter().map(|(k, _)| *k).collect();
                keys.sort();
                keys.dedup();
                if keys.len() != bad.len() {
                    continue;
                }
                match cu(|| verify_multi_proof_update::<H::N>(v, bad.clone())) {
                    Ok(Ok(r)) if r != want => {
                        return Err(format!(
                            "{what}: verify_multi_proof_update accepts an op list that is not sorted ({} ops) and returns {} although the true root of the updated set is {}",
                            bad.len(),
                            hx8(&r),
                            hx8(&want)
                        ))
                    }
                    Ok(Ok(_)) => self.judged += 1,
                    Ok(Err(_)) => {}
                    Err(p) => self.panics.push(p),
                }
            }
        }
        Ok(())
    }
}

/// Op lists outside the documented domain: reversed, with a duplicated key (all Some/None combinations),
/// with an adjacent swap.
fn bad_op_lists(ops: &[(Key, Option<[u8; 32]>)]) -> Vec<Vec<(Key, Option<[u8; 32]>)>> {
    let mut out = Vec::new();
    if ops.is_empty() {
        return out;
    }
    let mut rev = ops.to_vec();
    rev.reverse();
    out.push(rev);
    for (a, b) in [(Some([3u8; 32]), Some([4u8; 32])), (None, Some([4u8; 32])), (Some([3u8; 32]), None), (None, None)] {
        for at in [0, ops.len() / 2, ops.len() - 1] {
            let mut d = ops.to_vec();
            let k = d[at].0;
            d[at].1 = a;
            d.insert(at + 1, (k, b));
            out.push(d);
        }
    }
    if ops.len() >= 2 {
        let mut sw = ops.to_vec();
        sw.swap(0, 1);
        out.push(sw);
        // the first op moved to the end / the last one to the front
        let mut rot = ops.to_vec();
        rot.rotate_left(1);
        out.push(rot);
        let mut rot = ops.to_vec();
        rot.rotate_right(1);
        out.push(rot);
    }
    // local disorder inside every window of three neighbouring ops (neighbours usually share a terminal):
    // [a, c, b], [b, a, c], [b, c, a], [c, a, b] - each op stays greater than SOME earlier op, the list is not sorted
    for i in 0..ops.len().saturating_sub(2) {
        for perm in [[0usize, 2, 1], [1, 0, 2], [1, 2, 0], [2, 0, 1]] {
            let mut d = ops.to_vec();
            let w = [ops[i], ops[i + 1], ops[i + 2]];
            for (j, p) in perm.iter().enumerate() {
                d[i + j] = w[*p];
            }
            out.push(d);
        }
    }
    // neighbouring swaps at every position
    for i in 1..ops.len().saturating_sub(1) {
        let mut d = ops.to_vec();
        d.swap(i, i + 1);
        out.push(d);
    }
    out
}

/// Shared body of C08 and C18: build honest objects, mutate, verify, judge / record panics.
fn adversarial<H: HK>(case: &CoreCase, totality: bool) -> Result<CaseInfo, Violation> {
    let mut info = CaseInfo::default();
    let w = build_world::<H>(case);
    let terms = chosen_terminals::<H>(case, &w);
    let ops = resolve_ops(case, &terms);
    let pr = probes(case, &w, &terms);
    let mut judge = Judge {
        kv: &w.kv,
        judged: 0,
        panics: Vec::new(),
    };
    let viol = |m: String| Violation { step: 0, msg: m };
    let mut mutated_verified = 0u64;

    // ---- path proofs
    let mut verified_full: Vec<VerifiedPathProof> = Vec::new();
    for (ti, (qk, p, _d)) in terms.iter().enumerate() {
        let mut p = p.clone();
        let mut mutated = false;
        let mut first_key = true;
        for m in case.muts.iter().filter(|m| m.kind < 12 && (m.a as usize % terms.len()) == ti) {
            mutate_path(&mut p, m, &w);
            mutated = true;
        }
        // verify under: the query key, a key sharing the scope, a shorter slice, another member key
        let mut s = SplitMix(case.salt ^ ti as u64);
        let mut keys: Vec<(Key, usize)> = vec![(*qk, 256)];
        let mut other = *qk;
        let r = s.key();
        for i in p.siblings.len().min(256)..256 {
            set_bit(&mut other, i, get_bit(&r, i));
        }
        keys.push((other, 256));
        keys.push((*qk, p.siblings.len().min(256)));
        keys.push((*qk, (s.below(257)) as usize));
        if let PathProofTerminal::Leaf(l) = &p.terminal {
            keys.push((l.key_path, 256));
        }
        for (k, len) in keys {
            let root = if case.root_mode == 1 { rnd_node(case.salt) } else { w.root };
            match cu(|| p.verify::<H::N>(&k.view_bits::<Msb0>()[..len], root)) {
                Ok(Ok(v)) => {
                    if mutated {
                        mutated_verified += 1;
                    }
                    info.bump("path_proofs_verified");
                    if root == w.root && len == 256 && first_key {
                        verified_full.push(v.clone());
                    }
                    first_key = false;
                    if root == w.root {
                        judge
                            .path_statements::<H>(&v, &pr, &ops, root, &format!("path proof #{ti} (mutated: {mutated}) verified under a {len}-bit key"))
                            .map_err(|m| viol(m))?;
                        if totality && len == 256 {
                            for bad in bad_op_lists(&ops) {
                                let upd = [PathUpdate { inner: v.clone(), ops: bad }];
                                if let Err(p) = cu(|| verify_update::<H::N>(root, &upd)) {
                                    judge.panics.push(p);
                                }
                            }
                        }
                    } else if totality {
                        let _ = judge.path_statements::<H>(&v, &pr, &ops, root, "");
                    }
                }
                Ok(Err(_)) => {
                    first_key = false;
                    info.bump("path_proofs_rejected")
                }
                Err(pn) => {
                    first_key = false;
                    judge.panics.push(pn)
                }
            }
        }
    }
    // several verified path proofs (mutated or not) in one verify_update: Ok(r) must be the true root of the set with
    // exactly the submitted ops applied - for every prefix of the path list, so that every path gets to be the last
    verified_full.sort_by(|a, b| a.path().cmp(b.path()));
    verified_full.dedup_by(|a, b| a.path() == b.path());
    if verified_full.len() >= 2 {
        let mut updates: Vec<PathUpdate> = Vec::new();
        for vp in &verified_full {
            let mine: Vec<(Key, Option<[u8; 32]>)> = ops.iter().filter(|(k, _)| k.view_bits::<Msb0>().starts_with(vp.path())).cloned().collect();
            if !mine.is_empty() {
                updates.push(PathUpdate { inner: vp.clone(), ops: mine });
            }
        }
        for n in 2..=updates.len() {
            let part = &updates[..n];
            let applied: Vec<(Key, Option<[u8; 32]>)> = part.iter().flat_map(|u| u.ops.iter().cloned()).collect();
            match cu(|| verify_update::<H::N>(w.root, part)) {
                Ok(Ok(r)) => {
                    let want = RefTrie::new(H::KIND, &apply_ops(&w.kv, &applied)).root();
                    if r != want {
                        return Err(viol(format!(
                            "verify_update over {} verified path proofs ({} ops) returns {} but the true root of the updated set is {}",
                            n,
                            applied.len(),
                            hx8(&r),
                            hx8(&want)
                        )));
                    }
                    judge.judged += 1;
                    info.bump("multi_path_updates_judged");
                }
                Ok(Err(_)) => {}
                Err(pn) => judge.panics.push(pn),
            }
        }
    }

    // ---- multi-proof
    let proofs: Vec<PathProof> = terms.iter().map(|t| t.1.clone()).collect();
    if let Ok(mut mp) = cu(|| MultiProof::from_path_proofs(proofs)) {
        let mut mutated = false;
        for m in case.muts.iter().filter(|m| m.kind >= 12) {
            let mm = Mutn { kind: m.kind - 12, ..m.clone() };
            mutate_multi(&mut mp, &mm, &w);
            mutated = true;
        }
        if mp.paths.len() <= 24 && mp.siblings.len() <= 400 {
            let mut roots = vec![w.root];
            if case.root_mode == 1 {
                roots.push(rnd_node(case.salt));
            }
            if case.root_mode == 2 {
                if let Some(r) = recorded_root::<H>(&mp) {
                    roots.push(r);
                }
            }
            for root in roots {
                match cu(|| verify_multi_proof::<H::N>(&mp, root)) {
                    Ok(Ok(v)) => {
                        info.bump("multi_proofs_verified");
                        if mutated {
                            mutated_verified += 1;
                        }
                        if root == w.root {
                            judge
                                .multi_statements::<H>(&v, &pr, &ops, &format!("multi-proof of {} paths (mutated: {mutated})", mp.paths.len()))
                                .map_err(|m| viol(m))?;
                            if totality {
                                // op lists outside the documented domain (duplicates, unsorted) must get a verdict too
                                for bad in bad_op_lists(&ops) {
                                    if let Err(p) = cu(|| verify_multi_proof_update::<H::N>(&v, bad)) {
                                        judge.panics.push(p);
                                    }
                                }
                            }
                        } else {
                            // verified against the root it hashes to: only totality is judged
                            info.bump("multi_proofs_verified_against_own_root");
                            let fake: Vec<(Key, [u8; 32])> = Vec::new();
                            let mut j2 = Judge { kv: &fake, judged: 0, panics: Vec::new() };
                            let _ = j2.multi_statements::<H>(&v, &pr, &ops, "");
                            let n = mp.paths.len().max(1);
                            for (i, k) in pr.iter().enumerate().take(12) {
                                if let Err(p) = cu(|| v.confirm_nonexistence_with_index(k, i % n)) {
                                    j2.panics.push(p);
                                }
                                if let Err(p) = cu(|| v.confirm_value_with_index(&LeafData { key_path: *k, value_hash: [1; 32] }, i % n)) {
                                    j2.panics.push(p);
                                }
                            }
                            // unsorted / duplicate / out-of-scope op lists
                            for bad in bad_op_lists(&ops) {
                                if let Err(p) = cu(|| verify_multi_proof_update::<H::N>(&v, bad)) {
                                    j2.panics.push(p);
                                }
                            }
                            let rand_ops: Vec<(Key, Option<[u8; 32]>)> = pr.iter().take(5).map(|k| (*k, Some([3u8; 32]))).collect();
                            if let Err(p) = cu(|| verify_multi_proof_update::<H::N>(&v, rand_ops)) {
                                j2.panics.push(p);
                            }
                            judge.panics.extend(j2.panics);
                        }
                    }
                    Ok(Err(_)) => info.bump("multi_proofs_rejected"),
                    Err(pn) => judge.panics.push(pn),
                }
            }
        }
    }

    info.add("statements_judged", judge.judged);
    info.add("mutated_objects_verified", mutated_verified);
    if totality {
        if std::env::var_os("VERIF_C18_COLLECT").is_some() {
            for p in &judge.panics {
                let loc: String = p.split('"').next().unwrap_or("").trim().to_string();
                info.bump(&format!("panic@{loc}"));
            }
            judge.panics.clear();
        }
        if let Some(p) = judge.panics.first() {
            return Err(viol(format!("verifier panicked: {p}")));
        }
        info.nontrivial = info.labels.get("multi_proofs_verified").copied().unwrap_or(0) + info.labels.get("path_proofs_verified").copied().unwrap_or(0) > 0
            || !case.muts.is_empty();
    } else {
        info.add("panics_ignored_here", judge.panics.len() as u64);
        info.nontrivial = mutated_verified > 0;
    }
    Ok(info)
}

// A hasher that records the last internal hash: lets us ask "which root does this object hash to".
thread_local! {
    static LAST_INTERNAL: std::cell::Cell<Node> = std::cell::Cell::new([0u8; 32]);
}
pub struct Rec<Hh>(std::marker::PhantomData<Hh>);
impl<Hh: nomt_core::hasher::NodeHasher> nomt_core::hasher::NodeHasher for Rec<Hh> {
    fn hash_leaf(data: &LeafData) -> [u8; 32] {
        Hh::hash_leaf(data)
    }
    fn hash_internal(data: &nomt_core::trie::InternalData) -> [u8; 32] {
        let h = Hh::hash_internal(data);
        LAST_INTERNAL.with(|c| c.set(h));
        h
    }
    fn node_kind(node: &Node) -> nomt_core::trie::NodeKind {
        Hh::node_kind(node)
    }
}

/// The root a (possibly malformed) multi-proof hashes to: the last internal hash computed during a
/// verification attempt against a dummy root (for a single terminal without siblings: its node).
fn recorded_root<H: HK>(mp: &MultiProof) -> Option<Node> {
    LAST_INTERNAL.with(|c| c.set([0u8; 32]));
    let r = cu(|| verify_multi_proof::<Rec<H::N>>(mp, [0xEE; 32]));
    match r {
        Ok(_) => {
            let last = LAST_INTERNAL.with(|c| c.get());
            if last != [0u8; 32] {
                Some(last)
            } else if mp.paths.len() == 1 {
                cu(|| mp.paths[0].terminal.node::<H::N>()).ok()
            } else {
                None
            }
        }
        Err(_) => None,
    }
}

fn dispatch(case: &CoreCase, f: impl Fn(&CoreCase, u8) -> Result<CaseInfo, Violation>) -> Result<CaseInfo, Violation> {
    f(case, if case.tail_label { 2 } else { case.sha2 as u8 })
}

fn brief(c: &CoreCase) -> String {
    format!(
        "{} keys (recipes), {} queries, {} ops, muts {:?}, root_mode {}",
        c.keys.len(),
        c.queries.len(),
        c.ops.len(),
        c.muts.iter().map(|m| m.kind).collect::<Vec<_>>(),
        c.root_mode
    )
}

/// Entry points without a `Ctx` (used by the coverage-guided fuzz target in /verif/fuzz).
pub fn run_c07(case: &CoreCase) -> Result<CaseInfo, Violation> {
    dispatch(case, |c, h| match h { 2 => c07_run::<TL>(c), 1 => c07_run::<S2>(c), _ => c07_run::<B3>(c) })
}
pub fn run_c08(case: &CoreCase) -> Result<CaseInfo, Violation> {
    dispatch(case, |c, h| match h { 2 => adversarial::<TL>(c, false), 1 => adversarial::<S2>(c, false), _ => adversarial::<B3>(c, false) })
}
pub fn run_c18(case: &CoreCase) -> Result<CaseInfo, Violation> {
    dispatch(case, |c, h| match h { 2 => adversarial::<TL>(c, true), 1 => adversarial::<S2>(c, true), _ => adversarial::<B3>(c, true) })
}

/// Forced shape "block-sized multi-proof": n pairs of keys sharing 248..255 bits, all 2n keys queried, so that the
/// aggregated proof has hundreds of paths and more than 2^16 siblings (per-path quantities stay <= 256, offsets into
/// the proof's sibling vector do not).
pub fn large_case_strategy() -> impl Strategy<Value = CoreCase> {
    (any::<u64>(), 270usize..=330, prop::collection::vec(any::<u64>(), 330), 1u8..=8, prop::collection::vec((any::<u16>(), prop::bool::weighted(0.3), any::<u64>(), prop::option::weighted(0.7, any::<u8>())), 1..=6)).prop_map(
        |(salt, n, seeds, twin_bits, ops)| {
            let mut keys = Vec::with_capacity(2 * n);
            for s in seeds.iter().take(n) {
                keys.push(gen::KeyRecipe { cluster: 0, plen: 0, suffix: gen::Suffix::Rand(*s) });
                keys.push(gen::KeyRecipe { cluster: 0, plen: 0, suffix: gen::Suffix::Twin(*s, twin_bits) });
            }
            let len = 2 * n as u32;
            // one query per member (index j of the sorted set), key kept as is
            let queries = (0..len).map(|j| ((((j * 65536) + len - 1) / len).min(65535) as u16, 300u16, 0u8)).collect();
            CoreCase {
                salt,
                sha2: false,
                tail_label: false,
                keys,
                queries,
                ops: ops.into_iter().map(|(term, own, suffix, val)| OpSpec { term, own, suffix, val }).collect(),
                muts: Vec::new(),
                root_mode: 0,
            }
        },
    )
}

pub struct C07;
impl Check for C07 {
    type Case = CoreCase;
    const ID: &'static str = "C07";
    const LEVEL: &'static str = "exploration";
    const CRASH_GUARD: bool = false;
    fn rule() -> String {
        "key-value sets of 0..40 clustered keys (reference trie) x sets of distinct terminals reached by 1..10 query keys (members, bit flips of members at every depth) -> honest \
         path proofs -> MultiProof::from_path_proofs. Oracle: the multi-proof verifies against the reference root; for every probe key (members, bit flips, keys under each terminal \
         prefix, random) confirm_value / confirm_nonexistence (searching and _with_index forms) equal the answers of the individual VerifiedPathProof (also for the neighbouring \
         leaf's value hash under an absent key) and the truth; keys outside every aggregated path give KeyOutOfScope; verify_multi_proof_update over generated in-scope sorted write \
         sets (inserts under terminators, splits of leaves, overwrites, deletions) equals verify_update over the per-path updates and the reference root of the updated set. \
         One case in 20 000 is a block-sized multi-proof: 270-330 pairs of keys sharing 248-255 bits, all of them proven (540-660 paths, 65 000-85 000 siblings), with 1-6 writes. Non-trivial = >= 2 paths, >= 1 op, >= 1 sibling in the multi-proof; distinct = distinct serialized case".into()
    }
    fn cases(tier: Tier) -> u32 {
        tier.pick(480000, 4000000)
    }
    fn strategy(_tier: Tier) -> BoxedStrategy<CoreCase> {
        // 1 case in 20000 is a block-sized multi-proof (hundreds of paths, > 65 536 siblings)
        prop_oneof![19999 => case_strategy(40, 0), 1 => large_case_strategy()].boxed()
    }
    fn run(case: &CoreCase, _ctx: &Ctx) -> Result<CaseInfo, Violation> {
        dispatch(case, |c, h| match h { 2 => c07_run::<TL>(c), 1 => c07_run::<S2>(c), _ => c07_run::<B3>(c) })
    }
    fn brief(case: &CoreCase) -> String {
        brief(case)
    }
    fn max_shrink_iters(_t: Tier) -> u32 {
        4000
    }
}

pub struct C08;
impl Check for C08 {
    type Case = CoreCase;
    const ID: &'static str = "C08";
    const LEVEL: &'static str = "exploration";
    const CRASH_GUARD: bool = false;
    fn rule() -> String {
        "key-value set S (0..40 clustered keys) x adversarial proof objects: honest path proofs / multi-proofs mutated by 0..6 generated operators (sibling bit flip, drop, insert, \
         swap, truncate, duplicate, zero; leaf key / value-hash change; leaf<->terminator; terminator position of any depth 0..256 incl. extra bits beyond the proven depth; other member \
         leaf; multi-proof depth 0/±k/255/256/257/usize::MAX, consistent and inconsistent with the terminal, shallower depth, path swap/duplicate/drop/foreign path, sibling moves across \
         bisections, truncation/extension) verified under the query key, a key sharing the scope, shorter key slices and the leaf's own key, against the true root of S. Oracle from S only: \
         whenever verification returns Ok, confirm_value == Ok(true) implies S[key] has that hash, confirm_nonexistence == Ok(true) implies key not in S, and every verify_update / \
         verify_multi_proof_update returning Ok(r) has r == reference root of S with the ops applied - also for the same ops in orders that are not sorted (reversed, rotated, local permutations, neighbouring swaps), which may be rejected but must not yield another root; all path proofs of the case that verified are also submitted together in one verify_update (every prefix of the sorted path list), Ok(r) must be the true root with exactly the submitted ops applied. Err is always fine; panics are counted, not judged (C18). Non-trivial = case in which a \
         MUTATED object still verified (label mutated_objects_verified); distinct = distinct serialized case".into()
    }
    fn assumptions() -> Vec<String> {
        vec!["blake3 / sha2-256 are collision resistant".into()]
    }
    fn cases(tier: Tier) -> u32 {
        tier.pick(320000, 4000000)
    }
    fn strategy(_tier: Tier) -> BoxedStrategy<CoreCase> {
        case_strategy(40, 6)
            .prop_map(|mut c| {
                if c.root_mode == 2 {
                    c.root_mode = 0;
                }
                c
            })
            .boxed()
    }
    fn run(case: &CoreCase, _ctx: &Ctx) -> Result<CaseInfo, Violation> {
        dispatch(case, |c, h| match h { 2 => adversarial::<TL>(c, false), 1 => adversarial::<S2>(c, false), _ => adversarial::<B3>(c, false) })
    }
    fn brief(case: &CoreCase) -> String {
        brief(case)
    }
    fn max_shrink_iters(_t: Tier) -> u32 {
        4000
    }
}

pub struct C18;
impl Check for C18 {
    type Case = CoreCase;
    const ID: &'static str = "C18";
    const LEVEL: &'static str = "exploration";
    const CRASH_GUARD: bool = false;
    fn rule() -> String {
        "the adversarial objects of C08 (all values of PathProof / MultiProof{paths: {terminal, depth: usize}, siblings} reachable through the public constructors by 0..6 mutations of honest \
         objects; sizes <= 24 paths / 400 siblings; depth incl. 0, 255, 256, 257, usize::MAX) verified against the honest root, a random root, and - through a recording hasher - the root the \
         malformed object itself hashes to, so that malformed-but-verifying objects reach confirm_*, confirm_*_with_index (index in range) and verify_multi_proof_update with sorted, reversed \
         and out-of-scope op lists. Oracle: every call returns (catch_unwind); a panic, arithmetic overflow or out-of-bounds index is a violation identified by location. Non-trivial = case with \
         >= 1 mutation or >= 1 verified object; distinct = distinct serialized case".into()
    }
    fn cases(tier: Tier) -> u32 {
        tier.pick(320000, 4000000)
    }
    fn strategy(_tier: Tier) -> BoxedStrategy<CoreCase> {
        case_strategy(30, 6).boxed()
    }
    fn run(case: &CoreCase, _ctx: &Ctx) -> Result<CaseInfo, Violation> {
        dispatch(case, |c, h| match h { 2 => adversarial::<TL>(c, true), 1 => adversarial::<S2>(c, true), _ => adversarial::<B3>(c, true) })
    }
    fn brief(case: &CoreCase) -> String {
        brief(case)
    }
    fn max_shrink_iters(_t: Tier) -> u32 {
        4000
    }
}
