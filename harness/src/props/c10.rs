//! C10 — reopening is transparent (twin differential: store A never closed, store B with reopens).

use crate::driver::{B3, HK, S2};
use crate::hist::{history_strategy, CaseInfo, HistParams, History, Obs, Runner, Step, StepOutcome, Violation};
use crate::reftrie::HasherKind;
use crate::runner::{Check, Ctx, Tier};
use proptest::strategy::{BoxedStrategy, Strategy};

pub struct C10;

fn run_twin<H: HK>(hist: &History, ctx: &Ctx) -> Result<CaseInfo, Violation> {
    let obs = Obs {
        values: true,
        root: true,
        proofs: 12,
        ..Default::default()
    };
    let mut a = Runner::<H>::new(hist, &obs, &ctx.scratch, 24 << 20)?;
    let mut b = Runner::<H>::new(hist, &obs, &ctx.scratch, 24 << 20)?;
    a.clamp_rollback = true;
    b.clamp_rollback = true;
    let mut steps: Vec<Step> = hist.steps.clone();
    steps.push(Step::Reopen(hist.cfg.clone()));
    let mut differing_reopen_after_delete = false;
    for (i, st) in steps.iter().enumerate() {
        let is_reopen = matches!(st, Step::Reopen(_));
        if !is_reopen {
            match a.step(i, st).map_err(|v| Violation {
                step: v.step,
                msg: format!("[store A, never closed] {}", v.msg),
            })? {
                StepOutcome::Done => {}
                StepOutcome::Discard(w) => {
                    let mut info = std::mem::take(&mut b.info);
                    info.discarded = Some(w);
                    return Ok(info);
                }
            }
        }
        match b.step(i, st).map_err(|v| Violation {
            step: v.step,
            msg: format!("[store B, reopened] {}", v.msg),
        })? {
            StepOutcome::Done => {}
            StepOutcome::Discard(w) => {
                let mut info = std::mem::take(&mut b.info);
                info.discarded = Some(w);
                return Ok(info);
            }
        }
        if let Step::Reopen(c) = st {
            let l = |k: &str| b.info.labels.get(k).copied().unwrap_or(0);
            if (l("delete_existing") > 0 || l("rollbacks_ok") > 0)
                && crate::gen::retune(&hist.cfg, c) != hist.cfg
            {
                differing_reopen_after_delete = true;
            }
        }
        // direct A/B comparison
        let (ua, ub) = (
            a.db().nomt.hash_table_utilization(),
            b.db().nomt.hash_table_utilization(),
        );
        if ua.occupied != ub.occupied || ua.capacity != ub.capacity {
            return Err(Violation {
                step: i,
                msg: format!(
                    "hash-table utilisation differs: never-closed store {}/{} vs reopened store {}/{}",
                    ua.occupied, ua.capacity, ub.occupied, ub.capacity
                ),
            });
        }
        if a.db().root() != b.db().root() || a.db().seqn() != b.db().seqn() {
            return Err(Violation {
                step: i,
                msg: "root or sync_seqn differs between never-closed and reopened store".into(),
            });
        }
        if a.model.cur != b.model.cur {
            return Err(Violation {
                step: i,
                msg: "commit/rollback outcomes diverged between never-closed and reopened store".into(),
            });
        }
    }
    let mut info = std::mem::take(&mut b.info);
    a.finish()?;
    b.finish()?;
    info.nontrivial = differing_reopen_after_delete;
    Ok(info)
}

impl Check for C10 {
    type Case = History;
    const ID: &'static str = "C10";
    const LEVEL: &'static str = "exploration";
    fn rule() -> String {
        "twin differential: one proptest history (commits via sessions/overlays, rollbacks within the guaranteed depth, reopens with generated runtime \
         configurations; rollback flag/log length/bucket count/seed constant) is executed on store A (never closed) and store B (closed and reopened at the \
         generated positions, plus a final reopen). After every step both are compared with the model (root, all values, seqn, proofs for a probe set) and with each \
         other (root, seqn, hash_table_utilization().occupied/capacity, commit/rollback outcomes). Non-trivial = a reopen with a configuration differing from the \
         creation configuration after >= 1 delete of an existing key or rollback; distinct = distinct serialized case".into()
    }
    fn cases(tier: Tier) -> u32 {
        tier.pick(1600, 16000)
    }
    fn strategy(tier: Tier) -> BoxedStrategy<History> {
        history_strategy(HistParams {
            max_steps: tier.pick(10, 24),
            max_entries: tier.pick(20, 60),
            bulk_n: tier.pick(6000, 8000),
            big_values: true,
            rollback: 1,
            rollback_weight: 12,
            reopen_weight: 30,
            overlay_weight: 15,
            witness_weight: 0.0,
            ext4_weight: 4,
        })
        .boxed()
    }
    fn run(case: &History, ctx: &Ctx) -> Result<CaseInfo, Violation> {
        match case.cfg.hasher {
            HasherKind::Blake3 | HasherKind::TailLabel => run_twin::<B3>(case, ctx),
            HasherKind::Sha2 => run_twin::<S2>(case, ctx),
        }
    }
    fn brief(case: &History) -> String {
        case.brief()
    }
}
