//! C14 — a failing commit is reported, poisons the handle and stays atomic.

use crate::crash::{self, FaultCase, ImgCtx};
use crate::driver::{overlay_of, Cfg, CommitOpts, Db, Fail, FailKind, Fs, B3, HK, S2};
use crate::gen;
use crate::hist::{self, history_strategy, CaseInfo, HistParams, Obs, Runner, Step, StepOutcome, Via, Violation};
use crate::iosim::{self, FailPlan, Recorder};
use crate::model::{MOp, Model};
use crate::reftrie::HasherKind;
use crate::runner::{Check, Ctx, Tier};
use crate::util::Key;
use proptest::prelude::*;
use std::sync::mpsc;
use std::time::Duration;

pub struct C14;

enum OpUnderTest {
    Commit { batch: Vec<(Key, MOp)>, overlay: bool, nonblocking: bool, opts: CommitOpts },
    Rollback(usize),
}

/// Execute the operation without judging it.
fn exec<H: HK>(db: &Db<H>, pre: &Model, op: &OpUnderTest) -> Result<(), Fail> {
    match op {
        OpUnderTest::Commit { batch, overlay, nonblocking, opts } => {
            let sess = db.begin(&[], false)?;
            let fin = db.finish(sess, &pre.cur, batch, opts)?;
            if *overlay {
                let o = overlay_of(fin)?;
                if *nonblocking {
                    db.try_commit_overlay(o).map(|_| ())
                } else {
                    db.commit_overlay(o)
                }
            } else if *nonblocking {
                db.try_commit_finished(fin.fs).map(|_| ())
            } else {
                db.commit_finished(fin.fs)
            }
        }
        OpUnderTest::Rollback(n) => db.rollback(*n),
    }
}

const HANG_EXIT: i32 = 4;

/// Run `f` on a helper thread; if it does not finish in time the process exits with HANG_EXIT after
/// writing a marker (the orchestrator turns that into a violation with the current case).
pub fn with_hang_guard<T: Send + 'static>(what: &str, secs: u64, f: impl FnOnce() -> T + Send + 'static) -> T {
    let (tx, rx) = mpsc::channel();
    std::thread::spawn(move || {
        let _ = tx.send(f());
    });
    match rx.recv_timeout(Duration::from_secs(secs)) {
        Ok(v) => v,
        Err(_) => {
            eprintln!("HANG: {what} did not return within {secs}s");
            std::process::exit(HANG_EXIT);
        }
    }
}

/// Bucket-exhaustion family: a store with a tiny merkle page table is grown commit by commit (each batch
/// opens new 6-bit / 12-bit key prefixes, i.e. new stored merkle pages) until a page allocation fails.
fn run_exhaustion<H: HK>(case: &FaultCase, ctx: &Ctx) -> Result<CaseInfo, Violation> {
    use crate::util::SplitMix;
    let mut info = CaseInfo::default();
    let rec = Recorder::install();
    rec.unwatch();
    let mut s = SplitMix(case.choice_seed ^ 0xe8a5);
    let mut cfg = case.hist.cfg.clone();
    cfg.buckets = [8u32, 12, 16, 24, 32, 40, 64, 96, 130][s.below(9) as usize];
    cfg.preallocate = false;
    cfg.fs = Fs::Tmpfs;
    let dir = ctx.scratch.dir(cfg.fs);
    let v = |step: usize, m: String| Violation { step, msg: m };
    let db = std::sync::Arc::new(Db::<H>::open(&dir, &cfg).map_err(|f| v(0, f.sig()))?);
    let mut model = Model::new(H::KIND, cfg.rollback, cfg.max_log as usize);
    let mut next_prefix: u16 = s.below(64) as u16;
    for i in 0..48usize {
        // a batch that needs new pages: a few new root children (depth-1 pages), sometimes a deep cluster
        let mut batch: std::collections::BTreeMap<Key, MOp> = std::collections::BTreeMap::new();
        for _ in 0..(1 + s.below(4)) {
            let p = (next_prefix % 64) as u8;
            next_prefix = next_prefix.wrapping_add(1 + s.below(3) as u16);
            let n = if s.below(5) == 0 { 22 + s.below(10) } else { 2 + s.below(3) };
            let second: u8 = s.below(64) as u8;
            for _ in 0..n {
                let mut k = s.key();
                k[0] = (p << 2) | (second >> 4);
                if n > 20 {
                    k[1] = (second << 4) | (k[1] & 0x0f); // 12 common bits: a depth-2 page beyond the elision threshold
                }
                batch.insert(k, MOp::Write(Some(std::sync::Arc::new(crate::util::value_bytes(&k, i as u32 + 1, 10 + s.below(60) as usize)))));
            }
        }
        // and some deletions so that tombstones exist
        if i % 3 == 2 {
            for k in model.keys().into_iter().take(6) {
                batch.entry(k).or_insert(MOp::Write(None));
            }
        }
        let batch: Vec<(Key, MOp)> = batch.into_iter().collect();
        let pre = model.clone();
        let mut post = model.clone();
        post.commit(&batch);
        let op = std::sync::Arc::new(OpUnderTest::Commit { batch: batch.clone(), overlay: i % 4 == 3, nonblocking: i % 5 == 4, opts: CommitOpts::default() });
        // a second changeset prepared on the same base BEFORE the commit that may fail: committing it afterwards
        // must be refused (building a new session on a poisoned handle is not required to work)
        let extra = {
            let kx = [0x42u8; 32];
            let small = vec![(kx, MOp::Write(Some(std::sync::Arc::new(vec![1u8]))))];
            db.begin(&[], false).and_then(|sx| db.finish(sx, &pre.cur, &small, &CommitOpts::default())).map_err(|f| v(i, f.sig()))?
        };
        let (db2, pre2, op2) = (db.clone(), std::sync::Arc::new(pre.clone()), op.clone());
        let res = with_hang_guard("commit on a store whose merkle page table is (nearly) full", 60, move || exec(&db2, &pre2, &op2));
        match res {
            Ok(()) => {
                if db.root() != post.root() {
                    return Err(v(i, format!("commit #{i} on a {}-bucket table returned Ok but the root is not the model's", cfg.buckets)));
                }
                let u = db.nomt.hash_table_utilization();
                info.max("max_occupied_percent", (u.occupied * 100 / u.capacity.max(1)) as u64);
                model = post;
                continue;
            }
            Err(f) if f.kind == FailKind::Panic => {
                return Err(v(i, format!("commit #{i} on a {}-bucket table ({} occupied) panicked instead of reporting bucket exhaustion: {}", cfg.buckets, db.nomt.hash_table_utilization().occupied, f.msg)))
            }
            Err(f) if !f.is_bucket_exhaustion() => {
                return Err(v(i, format!("commit #{i} on a {}-bucket table fails without any injected fault and not with bucket exhaustion: {}", cfg.buckets, f.sig())))
            }
            Err(_) => {}
        }
        info.bump("bucket_exhaustion_reported");
        info.add("exhausted_at_commit", i as u64);
        if !db.nomt.is_poisoned() {
            return Err(v(i, "bucket exhaustion: the commit returned an error but the handle does not report itself poisoned".into()));
        }
        let db3 = db.clone();
        let again = with_hang_guard("commit on a handle poisoned by bucket exhaustion", 60, move || db3.commit_finished(extra.fs));
        match again {
            Ok(_) => return Err(v(i, "bucket exhaustion: a further commit on the poisoned handle succeeded".into())),
            Err(f) if f.kind == FailKind::Panic => return Err(v(i, format!("bucket exhaustion: a further commit on the poisoned handle panicked: {}", f.msg))),
            Err(_) => {}
        }
        let dropped = with_hang_guard("drop(Nomt) after bucket exhaustion", 60, move || match std::sync::Arc::try_unwrap(db) {
            Ok(d) => d.close().map_err(|f| f.sig()),
            Err(_) => Err("handle still shared".to_string()),
        });
        dropped.map_err(|e| v(i, format!("bucket exhaustion: dropping the handle: {e}")))?;
        let ictx = ImgCtx { cfg: &cfg, pre: &pre, post: &post, salt: case.choice_seed };
        // deep 0/1 only: a further commit on the reopened (still full) table would rightly fail again
        let w = crash::verify_dir::<H>(&dir, &ictx, None, 1, "bucket exhaustion; reopening").map_err(|m| v(i, m))?;
        info.bump(&format!("reopen_after_exhaustion_{w:?}"));
        hist::rm(&dir);
        info.nontrivial = true;
        return Ok(info);
    }
    info.bump("table_never_exhausted");
    if let Ok(d) = std::sync::Arc::try_unwrap(db) {
        let _ = d.close();
    }
    hist::rm(&dir);
    Ok(info)
}

fn run_case<H: HK>(case: &FaultCase, ctx: &Ctx) -> Result<CaseInfo, Violation> {
    if case.choice_seed % 4 == 0 {
        return run_exhaustion::<H>(case, ctx);
    }
    let mut hist_owned = case.hist.clone();
    // op under test: the last commit / rollback step
    while matches!(hist_owned.steps.last(), Some(Step::Reopen(_))) {
        hist_owned.steps.pop();
    }
    if let Some(Step::Commit(c)) = hist_owned.steps.last_mut() {
        if let Via::Overlays(_) = c.via {
            c.via = Via::Overlays(1);
        }
    }
    let hist = &hist_owned;
    if hist.steps.is_empty() {
        return Ok(CaseInfo::default());
    }
    let rec = Recorder::install();
    rec.unwatch();
    let n = hist.steps.len();
    let obs = Obs { root: true, ..Default::default() };
    // prefix
    let mut r = Runner::<H>::new(hist, &obs, &ctx.scratch, 1 << 20)?;
    for (i, st) in hist.steps[..n - 1].iter().enumerate() {
        match r.step(i, st)? {
            StepOutcome::Done => {}
            StepOutcome::Discard(w) => {
                let mut info = std::mem::take(&mut r.info);
                info.discarded = Some(w);
                return Ok(info);
            }
        }
    }
    let pre = r.model.clone();
    let cfg: Cfg = r.cfg.clone();
    let mut info = std::mem::take(&mut r.info);
    let base_dir = r.dir.clone();
    let db = r.detach().unwrap();
    db.close().map_err(|f| Violation { step: n - 1, msg: f.sig() })?;
    let base = iosim::read_dir_image(&base_dir).map_err(|e| Violation { step: 0, msg: format!("INFRA: {e}") })?;
    hist::rm(&base_dir);

    // resolve the op under test against the pre state
    let mut budget = gen::Budget { left: 1 << 20 };
    let op = match &hist.steps[n - 1] {
        Step::Commit(c) => {
            let batch = gen::resolve_batch(hist.salt, &c.batch, &pre.cur, 7777, &mut budget);
            let opts = CommitOpts {
                witness: false,
                warm: hist::select_mask(&batch, c.warm_mask, false),
                preserve: hist::select_mask(&batch, c.preserve_mask, true),
            };
            OpUnderTest::Commit { batch, overlay: matches!(c.via, Via::Overlays(_)), nonblocking: c.nonblocking, opts }
        }
        Step::Rollback(k) => {
            let k = *k as usize;
            if k == 0 || k > pre.guaranteed {
                info.discarded = Some("rollback_not_servable".into());
                return Ok(info);
            }
            OpUnderTest::Rollback(k)
        }
        Step::Reopen(_) => unreachable!(),
    };
    let mut post = pre.clone();
    match &op {
        OpUnderTest::Commit { batch, .. } => post.commit(batch),
        OpUnderTest::Rollback(k) => post.rollback_apply(*k),
    }
    let op = std::sync::Arc::new(op);
    let pre = std::sync::Arc::new(pre);

    // counting run
    let count_dir = ctx.scratch.dir(cfg.fs);
    iosim::write_image(&base, &count_dir).map_err(|e| Violation { step: 0, msg: format!("INFRA: {e}") })?;
    let db = Db::<H>::open(&count_dir, &cfg).map_err(|f| Violation { step: n - 1, msg: f.sig() })?;
    rec.watch(&count_dir, None);
    let res = exec(&db, &pre, &op);
    let total = rec.ops_seen();
    let trace = rec.take();
    rec.unwatch();
    let _ = db.close();
    hist::rm(&count_dir);
    match res {
        Ok(()) => {}
        Err(f) if f.is_bucket_exhaustion() => {
            info.discarded = Some("bucket_exhaustion".into());
            return Ok(info);
        }
        Err(f) => return Err(Violation { step: n - 1, msg: format!("operation fails without any injected fault: {}", f.sig()) }),
    }
    info.add("fault_points_available", total as u64);
    let _ = trace;
    let max_points = ctx.tier.pick(90usize, 600usize);
    let stride = ((total + max_points - 1) / max_points.max(1)).max(1);
    let ictx_cfg = cfg.clone();
    let mut fired_any = 0u64;
    for k in (0..total).step_by(stride) {
        for persistent in [false, true] {
            let errno = if (k + persistent as usize) % 2 == 0 { libc::EIO } else { libc::ENOSPC };
            let dir = ctx.scratch.dir(cfg.fs);
            iosim::write_image(&base, &dir).map_err(|e| Violation { step: 0, msg: format!("INFRA: {e}") })?;
            let db = Db::<H>::open(&dir, &cfg).map_err(|f| Violation { step: n - 1, msg: f.sig() })?;
            // A second changeset prepared on the same base *before* the fault: committing it afterwards
            // must be refused (building a new session on a poisoned handle is not required to work).
            let extra = {
                let kx = [0x42u8; 32];
                let batch = vec![(kx, MOp::Write(Some(std::sync::Arc::new(vec![1, 2, 3]))))];
                db.begin(&[], false)
                    .and_then(|s| db.finish(s, &pre.cur, &batch, &CommitOpts::default()))
                    .map_err(|f| Violation { step: n - 1, msg: f.sig() })?
            };
            rec.watch(&dir, Some(FailPlan { k, persistent, errno, class: None }));
            let db = std::sync::Arc::new(db);
            let (db2, pre2, op2) = (db.clone(), pre.clone(), op.clone());
            let res = with_hang_guard("commit/rollback with an injected I/O fault", 90, move || exec(&db2, &pre2, &op2));
            let fired = rec.fired();
            rec.unwatch();
            let desc = fired
                .first()
                .map(|(i, f, kind)| format!("fault #{i} {}({}) errno={} {}", kind, iosim::file_class(f), errno, if persistent { "persistent" } else { "once" }))
                .unwrap_or_default();
            let verdict: Result<(), String> = (|| {
                if fired.is_empty() {
                    info.bump("fault_not_reached");
                    return Ok(());
                }
                fired_any += 1;
                let (_, f0, k0) = &fired[0];
                info.bump(&format!("fired_{}_{}", iosim::file_class(f0), k0));
                match &res {
                    Ok(()) => return Err(format!("{desc}: the operation returned Ok although an I/O operation failed (failure swallowed)")),
                    Err(f) if f.kind == FailKind::Panic => return Err(format!("{desc}: the operation panicked instead of returning an error: {}", f.msg)),
                    Err(_) => {}
                }
                if !db.nomt.is_poisoned() {
                    return Err(format!("{desc}: the operation returned an error but the handle does not report itself poisoned"));
                }
                // further commit attempts are refused
                let db3 = db.clone();
                let again = with_hang_guard("commit on a poisoned handle", 60, move || db3.commit_finished(extra.fs));
                match again {
                    Ok(()) => return Err(format!("{desc}: a further commit on the poisoned handle succeeded")),
                    Err(f) if f.kind == FailKind::Panic => return Err(format!("{desc}: a further commit on the poisoned handle panicked: {}", f.msg)),
                    Err(_) => {}
                }
                Ok(())
            })();
            // drop must terminate
            let dropped = with_hang_guard("drop(Nomt) after a failed commit", 60, move || {
                match std::sync::Arc::try_unwrap(db) {
                    Ok(d) => d.close().map_err(|f| f.sig()),
                    Err(_) => Err("handle still shared".to_string()),
                }
            });
            let verdict = verdict.and_then(|_| {
                if fired.is_empty() {
                    return Ok(());
                }
                dropped.map_err(|e| format!("{desc}: dropping the handle: {e}"))?;
                let ictx = ImgCtx { cfg: &ictx_cfg, pre: &pre, post: &post, salt: hist.salt };
                crash::verify_dir::<H>(&dir, &ictx, None, 1, &format!("{desc}; reopening without faults"))
                    .map(|w| info.bump(&format!("reopen_after_fault_{w:?}")))
            });
            hist::rm(&dir);
            if let Err(m) = verdict {
                return Err(Violation { step: n - 1, msg: m });
            }
        }
    }
    info.nontrivial = fired_any >= 2;
    Ok(info)
}

impl Check for C14 {
    type Case = FaultCase;
    const ID: &'static str = "C14";
    const LEVEL: &'static str = "fault_enumeration";
    fn rule() -> String {
        "for a proptest history the last commit (session / overlay, blocking / non-blocking) or servable rollback(n) is first run once to count its N mutating file \
         operations (page writes through the I/O pool, direct writes, appends, resizes, fsyncs, creates, unlinks, directory syncs); then, from a copy of the pre-operation \
         directory, for every k < N (evenly strided above the point budget) the k-th operation is made to fail once and persistently (from k on) with EIO / ENOSPC through \
         the hook (nothing is written). Oracle when the fault fired: the call returns Err (Ok = swallowed failure; panic = violation; no return within 90 s = hang), \
         is_poisoned() is true, a further commit returns Err, dropping the handle terminates, and reopening without faults shows exactly the pre or the post state (root, \
         seqn, all values, proofs). A quarter of the cases form the BUCKET-EXHAUSTION family instead: a store with 8..130 hash-table buckets is grown commit by commit (batches opening new \
         6-bit / 12-bit key prefixes = new stored merkle pages, plus deletions leaving tombstones; session / overlay, blocking / non-blocking) until a page allocation fails: every \
         commit before must agree with the model; the failing one must return the bucket-exhaustion error (no panic, no other error, no hang within 60 s), poison the handle, refuse a \
         further commit, drop cleanly, and the directory must reopen to exactly pre or post. evaluations = cases; non-trivial = case in which >= 2 injected faults fired or the table was \
         exhausted; labels give the (file class x kind) matrix".into()
    }
    fn assumptions() -> Vec<String> {
        vec![
            "a failed operation writes nothing (pool writes complete with the error without being queued; a failed fsync is still performed by the OS but reported as failed)".into(),
            "faults are injected into commit / rollback only, not into Nomt::open".into(),
        ]
    }
    fn cases(tier: Tier) -> u32 {
        tier.pick(160, 1600)
    }
    fn strategy(tier: Tier) -> BoxedStrategy<FaultCase> {
        (
            history_strategy(HistParams {
                max_steps: tier.pick(5, 8),
                max_entries: tier.pick(14, 30),
                bulk_n: tier.pick(100, 400),
                big_values: true,
                rollback: 1,
                rollback_weight: 12,
                reopen_weight: 3,
                overlay_weight: 25,
                witness_weight: 0.0,
                ext4_weight: 5,
            }),
            any::<u64>(),
        )
            .prop_map(|(hist, choice_seed)| FaultCase { hist, choice_seed })
            .boxed()
    }
    fn run(case: &FaultCase, ctx: &Ctx) -> Result<CaseInfo, Violation> {
        match case.hist.cfg.hasher {
            HasherKind::Blake3 | HasherKind::TailLabel => run_case::<B3>(case, ctx),
            HasherKind::Sha2 => run_case::<S2>(case, ctx),
        }
    }
    fn brief(case: &FaultCase) -> String {
        format!("fault target = last commit/rollback of: {}", case.hist.brief())
    }
    fn max_shrink_iters(_t: Tier) -> u32 {
        40
    }
}

#[allow(dead_code)]
fn unused(_: Fs) {}
