//! C13 — results do not depend on parallelism, caching or tuning options.

use crate::driver::Cfg;
use crate::gen;
use crate::hist::{dispatch, history_strategy, CaseInfo, HistParams, History, Obs, Violation};
use crate::iosim::Recorder;
use crate::runner::{Check, Ctx, Tier};
use proptest::prelude::*;
use serde::{Deserialize, Serialize};

#[derive(Clone, Debug, Serialize, Deserialize, PartialEq, Eq)]
pub struct C13Case {
    pub hist: History,
    /// alternative configurations (the first run always uses the 1-worker baseline)
    pub alts: Vec<Cfg>,
    pub yield_seeds: Vec<u64>,
}

pub struct C13;

fn baseline(c: &Cfg) -> Cfg {
    Cfg {
        commit_concurrency: 1,
        io_workers: 1,
        warm_up: false,
        page_cache_mib: 8,
        leaf_cache_mib: 8,
        upper_levels: 2,
        prepopulate: false,
        ..c.clone()
    }
}

impl Check for C13 {
    type Case = C13Case;
    const ID: &'static str = "C13";
    const LEVEL: &'static str = "exploration";
    fn rule() -> String {
        "one proptest history (bulk inserts / rewrites / deletes of hundreds of keys spread over all root children, clustered entries, witnessed commits, overlay chains, reopens) is executed under \
         K configurations: the 1-worker baseline plus generated alternatives (commit_concurrency in {1,2,3,4,5,7,8,16,33,64,100}, io_workers 1..3, warm-up on/off with random warmed and \
         preserve-prior subsets, page cache 1/2/8 MiB, leaf cache 0/1/8 MiB, upper levels 0..3, pre-population, bucket counts and seeds, blake3 / sha2), each additionally under generated seeds of \
         schedule perturbation (random yields / 50-1500 us sleeps at nomt's lock acquisition points through the hook). Oracle per run: every commit's root equals the reference root of the model \
         (hence identical across configurations of one hasher), every witness passes the stateless verifier, values after every step and proofs for a probe set are those of the model. \
         Non-trivial = >= 2 runs with different worker counts on a history reaching >= 300 keys; distinct = distinct serialized case".into()
    }
    fn assumptions() -> Vec<String> {
        vec!["thread interleavings are sampled (seeded perturbation at lock acquisitions), not enumerated".into()]
    }
    fn cases(tier: Tier) -> u32 {
        tier.pick(1600, 12000)
    }
    fn strategy(tier: Tier) -> BoxedStrategy<C13Case> {
        (
            history_strategy(HistParams {
                max_steps: tier.pick(7, 14),
                max_entries: tier.pick(40, 100),
                bulk_n: tier.pick(900, 3000),
                big_values: true,
                rollback: 1,
                rollback_weight: 5,
                reopen_weight: 6,
                overlay_weight: 15,
                witness_weight: 0.5,
                ext4_weight: 0,
            }),
            prop::collection::vec(gen::cfg_strategy(any::<bool>().boxed(), 0), tier.pick(2, 5)),
            prop::collection::vec(any::<u64>(), tier.pick(1, 3)),
        )
            .prop_map(|(hist, alts, yield_seeds)| C13Case { hist, alts, yield_seeds })
            .boxed()
    }
    fn run(case: &C13Case, ctx: &Ctx) -> Result<CaseInfo, Violation> {
        let obs = Obs {
            values: true,
            root: true,
            witness: true,
            proofs: 8,
            ..Default::default()
        };
        let rec = Recorder::install();
        rec.unwatch();
        let mut cfgs: Vec<(Cfg, Option<u64>)> = vec![(baseline(&case.hist.cfg), None)];
        for a in &case.alts {
            // keep the history's rollback settings and file system; everything else may vary (incl. hasher)
            let c = Cfg {
                rollback: case.hist.cfg.rollback,
                max_log: case.hist.cfg.max_log,
                seg_records: case.hist.cfg.seg_records,
                fs: case.hist.cfg.fs,
                ..a.clone()
            };
            cfgs.push((c.clone(), None));
            for s in &case.yield_seeds {
                cfgs.push((c.clone(), Some(*s)));
            }
        }
        let mut total = CaseInfo::default();
        let mut workers = std::collections::BTreeSet::new();
        for (k, (cfg, ys)) in cfgs.iter().enumerate() {
            let mut h = case.hist.clone();
            h.cfg = cfg.clone();
            rec.set_yield(ys.is_some(), ys.unwrap_or(0));
            let r = dispatch(&h, &obs, &ctx.scratch, 6 << 20);
            rec.set_yield(false, 0);
            let info = r.map_err(|v| Violation {
                step: v.step,
                msg: format!(
                    "[configuration #{k}: {}{}] {}",
                    cfg.brief(),
                    ys.map(|s| format!(" yield-seed {s}")).unwrap_or_default(),
                    v.msg
                ),
            })?;
            if let Some(d) = info.discarded {
                total.discarded = Some(d);
                return Ok(total);
            }
            workers.insert(cfg.commit_concurrency.min(64));
            for (kk, vv) in info.labels {
                if kk.starts_with("max_") {
                    total.max(&kk, vv);
                } else {
                    total.add(&kk, vv);
                }
            }
            total.bump("runs");
            if ys.is_some() {
                total.bump("runs_with_schedule_perturbation");
            }
        }
        let l = |k: &str| total.labels.get(k).copied().unwrap_or(0);
        total.nontrivial = workers.len() >= 2 && l("max_keys") >= 300;
        Ok(total)
    }
    fn brief(case: &C13Case) -> String {
        format!(
            "{} | alts: {:?} | yield seeds {}",
            case.hist.brief(),
            case.alts.iter().map(|c| c.brief()).collect::<Vec<_>>(),
            case.yield_seeds.len()
        )
    }
    fn max_shrink_iters(_t: Tier) -> u32 {
        200
    }
}
