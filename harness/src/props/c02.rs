//! C02 — the root is the canonical commitment of the key-value set.

use crate::hist::{dispatch, history_strategy, CaseInfo, HistParams, History, Obs, Violation};
use crate::runner::{Check, Ctx, Tier};
use proptest::strategy::{BoxedStrategy, Strategy};

pub struct C02;

impl Check for C02 {
    type Case = History;
    const ID: &'static str = "C02";
    const LEVEL: &'static str = "exploration";
    fn rule() -> String {
        "proptest histories (as C01, small values, more clustered keys and bulk inserts/deletes that cross the 20-leaf page-elision \
         threshold) under random configurations; FinishedSession::root, Overlay::root and Nomt::root after every commit and after \
         reopen are compared with an independent from-scratch reference trie over the model map (empty => zero, single => leaf hash). One case in 24 additionally crashes its last operation at every I/O event boundary: the root of every \
         recovered store, and the root of a further commit on it, must be the reference root as well. Non-trivial = >=2 keys with a pair sharing >=6 bits (path leaves the root page) and >=2 commits; distinct = distinct serialized case".into()
    }
    fn assumptions() -> Vec<String> {
        vec!["reference trie uses blake3/sha2 crates directly with the MSB labelling of core/src/hasher.rs".into()]
    }
    fn cases(tier: Tier) -> u32 {
        tier.pick(4000, 40000)
    }
    fn strategy(tier: Tier) -> BoxedStrategy<History> {
        history_strategy(HistParams {
            max_steps: tier.pick(10, 24),
            max_entries: tier.pick(40, 100),
            bulk_n: tier.pick(400, 3000),
            big_values: false,
            rollback: 0,
            rollback_weight: 0,
            reopen_weight: 10,
            overlay_weight: 20,
            witness_weight: 0.0,
            ext4_weight: 3,
        })
        .boxed()
    }
    fn run(case: &History, ctx: &Ctx) -> Result<CaseInfo, Violation> {
        let obs = Obs {
            root: true,
            ..Default::default()
        };
        let mut info = dispatch(case, &obs, &ctx.scratch, 4 << 20)?;
        // the root must also be the canonical one on a store that came out of a crash recovery - right after the
        // recovery and after the next commit on it (1 case in 24: last operation crashed at every I/O event boundary)
        if info.discarded.is_none() {
            if let Some(n) = crate::crash::recovery_tier(case, ctx, 24, 24, "store reached through crash recovery")? {
                info.add("recovered_stores_judged", n);
                info.bump("cases_with_crash_recovery");
            }
        }
        let l = |k: &str| info.labels.get(k).copied().unwrap_or(0);
        info.nontrivial = info.discarded.is_none()
            && l("commits") >= 2
            && l("max_keys") >= 2
            && l("max_shared_bits") >= 6;
        Ok(info)
    }
    fn brief(case: &History) -> String {
        case.brief()
    }
}
