//! C11 — overlays behave exactly like the commits they stand for.

use crate::driver::{overlay_of, CommitOpts, FailKind, B3, HK, S2};
use crate::gen::{self, BatchSpec, KeySel};
use crate::hist::{self, history_strategy, CaseInfo, HistParams, History, Obs, Runner, StepOutcome, Violation};
use crate::model::{root_of, MOp, Map};
use crate::reftrie::HasherKind;
use crate::runner::{Check, Ctx, Tier};
use crate::util::{hx8, pick, Key};
use nomt::Overlay;
use proptest::prelude::*;
use serde::{Deserialize, Serialize};

#[derive(Clone, Debug, Serialize, Deserialize, PartialEq, Eq)]
pub enum Probe {
    Exact,
    MissingMiddle,
    MissingOldest,
    SiblingInstead,
    WrongOrder,
    ExtraNonAncestor,
}

#[derive(Clone, Debug, Serialize, Deserialize, PartialEq, Eq)]
pub enum Op {
    /// new overlay on parent (index into live overlays; out of range = on the committed base)
    New { parent: u8, batch: BatchSpec },
    Commit { ov: u8, nonblocking: bool },
    Drop { ov: u8 },
    PlainCommit { batch: BatchSpec },
    Rollback(u8),
    Chain { ov: u8, probe: Probe, pick: u16 },
    /// a session on the complete live chain of `parent` (out of range = on the committed base) is finished and
    /// KEPT as a finished session (not turned into an overlay) ...
    Prepare { parent: u8, batch: BatchSpec },
    /// ... and later committed directly
    CommitPrepared { idx: u8, nonblocking: bool },
}

#[derive(Clone, Debug, Serialize, Deserialize, PartialEq, Eq)]
pub struct C11Case {
    pub base: History,
    pub ops: Vec<Op>,
    pub reopen_before_probe: bool,
}

#[derive(Clone, Copy, PartialEq, Eq, Debug)]
enum St {
    Live,
    Committed,
    Dropped,
    /// consumed by a rejected commit attempt
    Consumed,
}

struct Ov {
    parent: Option<usize>,
    map: Map,
    batch: Vec<(Key, MOp)>,
    status: St,
    handle: Option<Overlay>,
    /// store version at which the root of this overlay's chain was created
    anchor_version: u64,
    /// version at which this overlay was committed
    committed_version: u64,
}

fn v(step: usize, m: impl Into<String>) -> Violation {
    Violation { step, msg: m.into() }
}

/// A finished session kept for a later direct commit.
struct Prepared {
    parent: Option<usize>,
    map: Map,
    batch: Vec<(Key, MOp)>,
    base_root: [u8; 32],
    handle: Option<nomt::FinishedSession>,
    /// store version at which the root of its chain was created (for parentless ones: at which it was prepared)
    anchor_version: u64,
}

struct World {
    ovs: Vec<Ov>,
    store_version: u64,
    last_committed: Option<usize>,
}

impl World {
    fn live(&self) -> Vec<usize> {
        (0..self.ovs.len()).filter(|i| self.ovs[*i].status == St::Live).collect()
    }
    /// The complete chain of uncommitted ancestors [o, parent, ...]; None if an ancestor that is not
    /// committed is no longer alive (chain broken).
    fn chain(&self, o: usize) -> Option<Vec<usize>> {
        let mut c = vec![o];
        let mut cur = self.ovs[o].parent;
        while let Some(p) = cur {
            match self.ovs[p].status {
                St::Live => {
                    c.push(p);
                    cur = self.ovs[p].parent;
                }
                St::Committed => break,
                St::Dropped | St::Consumed => return None,
            }
        }
        Some(c)
    }
    /// Is the chain of `o` attached to the current store state?
    fn attached(&self, o: usize) -> bool {
        let Some(c) = self.chain(o) else { return false };
        let oldest = *c.last().unwrap();
        match self.ovs[oldest].parent {
            None => self.ovs[oldest].anchor_version == self.store_version,
            Some(p) => self.last_committed == Some(p) && self.ovs[p].committed_version == self.store_version,
        }
    }
}

fn run_case<H: HK>(case: &C11Case, ctx: &Ctx) -> Result<CaseInfo, Violation> {
    let base = case.base.clone();
    let obs = Obs { root: true, ..Default::default() };
    let mut r = Runner::<H>::new(&base, &obs, &ctx.scratch, 1 << 20)?;
    for (i, st) in base.steps.iter().enumerate() {
        match r.step(i, st)? {
            StepOutcome::Done => {}
            StepOutcome::Discard(w) => {
                let mut info = std::mem::take(&mut r.info);
                info.discarded = Some(w);
                return Ok(info);
            }
        }
    }
    let n0 = base.steps.len();

    let mut info = std::mem::take(&mut r.info);
    let mut w = World {
        ovs: Vec::new(),
        store_version: 1,
        last_committed: None,
    };
    let mut budget = gen::Budget { left: 2 << 20 };
    let mut ver = 9000u32;
    let mut gray_seen = false;
    let mut prepared: Vec<Prepared> = Vec::new();

    for (oi, op) in case.ops.iter().enumerate() {
        let step = n0 + oi;
        ver += 1;
        // invariant checks after each op use the committed model state
        match op {
            Op::New { parent, batch } => {
                let live = w.live();
                let par: Option<usize> = live.get(*parent as usize).cloned();
                if let Some(p) = par {
                    if w.chain(p).is_none() || !w.attached(p) {
                        continue; // never build on a broken or stale chain (sound generator)
                    }
                }
                let view: Map = par.map(|p| w.ovs[p].map.clone()).unwrap_or_else(|| r.model.cur.clone());
                // re-target some `Existing` selections to keys the parent overlay touched
                let mut spec = batch.clone();
                if let Some(p) = par {
                    let pb = &w.ovs[p].batch;
                    if !pb.is_empty() {
                        for e in spec.entries.iter_mut() {
                            if let KeySel::Existing(i) = e.key {
                                if i % 3 == 0 {
                                    e.key = KeySel::Literal(hex::encode(pb[pick(i, pb.len())].0));
                                }
                            }
                        }
                    }
                }
                let b = gen::resolve_batch(base.salt ^ oi as u64, &spec, &view, ver, &mut budget);
                let chain = par.map(|p| w.chain(p).unwrap()).unwrap_or_default();
                let refs: Vec<&Overlay> = chain.iter().map(|i| w.ovs[*i].handle.as_ref().unwrap()).collect();
                let sess = r.db().begin(&refs, false).map_err(|f| v(step, format!("session on a complete live chain refused: {}", f.sig())))?;
                // reads through the chain
                for (k, _) in b.iter().take(16) {
                    let want = view.get(k).map(|x| x.bytes.as_ref().clone());
                    let got = crate::driver::guard("Session::read", || sess.read(*k)).map_err(|f| v(step, f.sig()))?;
                    if got != want {
                        return Err(v(step, format!("Session::read({}) through an overlay chain of {} disagrees with the model", hx8(k), chain.len())));
                    }
                }
                let opts = CommitOpts {
                    witness: false,
                    warm: Vec::new(),
                    preserve: b.iter().filter(|(_, o)| o.is_write()).step_by(2).map(|(k, _)| *k).collect(),
                };
                let fin = r.db().finish(sess, &view, &b, &opts).map_err(|f| v(step, f.sig()))?;
                let map = crate::model::apply(H::KIND, &view, &b);
                let o = overlay_of(fin).map_err(|f| v(step, f.sig()))?;
                if o.root().into_inner() != root_of(H::KIND, &map) {
                    return Err(v(step, format!("Overlay::root of an overlay at chain depth {} differs from the reference root", chain.len() + 1)));
                }
                let anchor_version = match par {
                    None => w.store_version,
                    Some(p) => w.ovs[p].anchor_version,
                };
                if par.is_some() {
                    info.bump("overlays_on_overlays");
                    if b.iter().any(|(k, op)| op.is_write() && !r.model.cur.contains_key(k) && view.contains_key(k)) {
                        info.bump("writes_to_keys_only_in_ancestor_overlays");
                    }
                }
                info.max("max_chain_depth", (chain.len() + 1) as u64);
                w.ovs.push(Ov {
                    parent: par,
                    map,
                    batch: b,
                    status: St::Live,
                    handle: Some(o),
                    anchor_version,
                    committed_version: 0,
                });
                info.bump("overlays_created");
            }
            Op::Prepare { parent, batch } => {
                let live = w.live();
                // 254 = the newest live overlay
                let par: Option<usize> = if *parent == 254 { live.last().cloned() } else { live.get(*parent as usize).cloned() };
                if let Some(p) = par {
                    if w.chain(p).is_none() || !w.attached(p) {
                        continue;
                    }
                }
                let view: Map = par.map(|p| w.ovs[p].map.clone()).unwrap_or_else(|| r.model.cur.clone());
                let mut spec = batch.clone();
                if let Some(p) = par {
                    // prefer keys the ancestor overlays touched (pages first created inside an overlay)
                    let pb = &w.ovs[p].batch;
                    if !pb.is_empty() {
                        for e in spec.entries.iter_mut() {
                            if let KeySel::Existing(i) = e.key {
                                if i % 2 == 0 {
                                    e.key = KeySel::Literal(hex::encode(pb[pick(i, pb.len())].0));
                                }
                            }
                        }
                    }
                }
                let b = gen::resolve_batch(base.salt ^ oi as u64, &spec, &view, ver, &mut budget);
                let chain = par.map(|p| w.chain(p).unwrap()).unwrap_or_default();
                let refs: Vec<&Overlay> = chain.iter().map(|i| w.ovs[*i].handle.as_ref().unwrap()).collect();
                let sess = r.db().begin(&refs, false).map_err(|f| v(step, format!("session on a complete live chain refused: {}", f.sig())))?;
                let fin = r.db().finish(sess, &view, &b, &CommitOpts::default()).map_err(|f| v(step, f.sig()))?;
                let map = crate::model::apply(H::KIND, &view, &b);
                if fin.root != root_of(H::KIND, &map) {
                    return Err(v(step, format!("FinishedSession::root of a session on a chain of {} overlays differs from the reference root", chain.len())));
                }
                let anchor_version = match par {
                    None => w.store_version,
                    Some(p) => w.ovs[p].anchor_version,
                };
                prepared.push(Prepared { parent: par, map, batch: b, base_root: fin.prev_root, handle: Some(fin.fs), anchor_version });
                info.bump("sessions_prepared_for_direct_commit");
                if par.is_some() {
                    info.bump("sessions_prepared_on_overlay_chains");
                }
            }
            Op::CommitPrepared { idx, nonblocking } => {
                let avail: Vec<usize> = (0..prepared.len()).filter(|i| prepared[*i].handle.is_some()).collect();
                if avail.is_empty() {
                    continue;
                }
                let pi = avail[*idx as usize % avail.len()];
                let fs = prepared[pi].handle.take().unwrap();
                let cur_root = root_of(H::KIND, &r.model.cur);
                let root_current = prepared[pi].base_root == cur_root;
                // the base is "the current state" when its whole ancestor chain has been committed, in order, and nothing else since
                let must_ok = match prepared[pi].parent {
                    None => prepared[pi].anchor_version == w.store_version,
                    Some(p) => w.ovs[p].status == St::Committed && w.last_committed == Some(p) && w.ovs[p].committed_version == w.store_version,
                };
                let (pre_map, pre_seqn) = (r.model.cur.clone(), r.model.seqn);
                let res = if *nonblocking { r.db().try_commit_finished(fs).map(|x| x.is_none()) } else { r.db().commit_finished(fs).map(|_| true) };
                let what = format!(
                    "direct commit of a finished session prepared on {}",
                    if prepared[pi].parent.is_some() { "an overlay chain (all of which has been committed since)" } else { "the committed state" }
                );
                match res {
                    Err(f) if f.kind == FailKind::Panic => return Err(v(step, format!("{what} panicked: {}", f.msg))),
                    Ok(false) => return Err(v(step, format!("{what}: try_commit_nonblocking handed the changeset back although no session was alive"))),
                    Ok(true) => {
                        if !root_current {
                            return Err(v(step, format!("{what} was accepted although its base is no longer the current state")));
                        }
                        if !must_ok {
                            info.bump("gray_zone_direct_commits_accepted");
                        }
                        if r.model.cur.clone() != pre_map {
                            unreachable!();
                        }
                        r.model.commit(&prepared[pi].batch);
                        if root_of(H::KIND, &r.model.cur) != root_of(H::KIND, &prepared[pi].map) {
                            // same base root but a different base map cannot happen with a collision-free hash
                            return Err(v(step, "INFRA: model disagreement about the prepared session's base".to_string()));
                        }
                        w.store_version += 1;
                        w.last_committed = None;
                        info.bump("direct_commits_of_prepared_sessions_accepted");
                        if prepared[pi].parent.is_some() {
                            info.bump("direct_commits_after_overlay_chain_committed");
                        }
                    }
                    Err(f) => {
                        if must_ok {
                            return Err(v(step, format!("{what} was rejected although its base is the current state: {}", f.sig())));
                        }
                        info.bump("direct_commits_of_prepared_sessions_rejected");
                        if r.db().root() != cur_root || r.db().seqn() != pre_seqn || r.db().nomt.is_poisoned() {
                            return Err(v(step, format!("a rejected {what} changed root, seqn or poisoned the handle")));
                        }
                        let keys: Vec<Key> = pre_map.keys().cloned().collect();
                        hist::check_values(r.db(), &pre_map, &keys, false, step).map_err(|e| v(step, format!("after a rejected {what}: {}", e.msg)))?;
                    }
                }
            }
            Op::Drop { ov } => {
                let live = w.live();
                let Some(&o) = live.get(*ov as usize) else { continue };
                w.ovs[o].status = St::Dropped;
                drop(w.ovs[o].handle.take());
                info.bump("overlays_dropped");
            }
            Op::PlainCommit { batch } => {
                let b = gen::resolve_batch(base.salt ^ oi as u64, batch, &r.model.cur, ver, &mut budget);
                r.db().commit_batch(&r.model.cur, &b, &CommitOpts::default()).map_err(|f| v(step, f.sig()))?;
                r.model.commit(&b);
                w.store_version += 1;
                w.last_committed = None;
                info.bump("plain_commits");
            }
            Op::Rollback(n) => {
                let n = (*n as usize).min(r.model.guaranteed);
                if n == 0 {
                    continue;
                }
                r.db().rollback(n).map_err(|f| v(step, format!("rollback({n}) within the retained depth failed: {}", f.sig())))?;
                r.model.rollback_apply(n);
                w.store_version += 1;
                w.last_committed = None;
                info.bump("rollbacks");
            }
            Op::Commit { ov, nonblocking } => {
                let live = w.live();
                let Some(&o) = live.get(*ov as usize) else { continue };
                let handle = w.ovs[o].handle.take().unwrap();
                let parent = w.ovs[o].parent;
                let root_matches = {
                    let base_root = match parent {
                        None => None,
                        Some(p) => Some(root_of(H::KIND, &w.ovs[p].map)),
                    };
                    // the overlay's previous root: parent's root, or the root of the state it was anchored on
                    match base_root {
                        Some(br) => br == root_of(H::KIND, &r.model.cur),
                        None => true, // judged through anchor_version below
                    }
                };
                let must_ok = w.attached(o) && w.chain(o).map_or(false, |c| c.len() == 1);
                let parent_uncommitted = parent.map_or(false, |p| w.ovs[p].status != St::Committed);
                // gray zone (known finding KF-C12-1): parentless overlay whose anchor state was left and restored
                let gray = !must_ok && !parent_uncommitted && parent.is_none() && {
                    // root equal although versions differ
                    let prev = w.ovs[o].map.clone();
                    let _ = prev;
                    // the overlay's base root equals the current root iff applying its batch to the current state gives its map
                    crate::model::apply(H::KIND, &r.model.cur, &w.ovs[o].batch) == w.ovs[o].map && w.ovs[o].anchor_version != w.store_version
                };
                if gray {
                    // either outcome is permitted here (the statement leaves this corner open; the API docs say
                    // the changeset "may be invalidated"), but whichever it is must be exact. FX-C12-2: this used to be
                    // accepted with a corrupted store as the result and was excluded from generation until repaired.
                    info.bump("gray_zone_overlay_commits");
                    gray_seen = true;
                }
                let _ = root_matches;
                let (pre_map, pre_seqn, pre_root) = (r.model.cur.clone(), r.model.seqn, root_of(H::KIND, &r.model.cur));
                let res = if *nonblocking {
                    r.db().try_commit_overlay(handle).map(|x| x.is_none())
                } else {
                    r.db().commit_overlay(handle).map(|_| true)
                };
                match res {
                    Err(f) if f.kind == FailKind::Panic => return Err(v(step, format!("overlay commit panicked: {}", f.msg))),
                    Ok(false) => return Err(v(step, "overlay try_commit_nonblocking handed the overlay back although no session was alive")),
                    Ok(true) => {
                        if !must_ok && !gray {
                            return Err(v(
                                step,
                                format!(
                                    "overlay commit accepted although {}",
                                    if parent_uncommitted { "its parent overlay is not committed" } else { "its base is no longer the current state" }
                                ),
                            ));
                        }
                        r.model.commit(&w.ovs[o].batch);
                        w.store_version += 1;
                        w.ovs[o].status = St::Committed;
                        w.ovs[o].committed_version = w.store_version;
                        w.last_committed = Some(o);
                        info.bump("overlay_commits_accepted");
                    }
                    Err(f) => {
                        if must_ok {
                            return Err(v(step, format!("overlay commit rejected although its parent is committed (or it has none) and its base is current: {}", f.sig())));
                        }
                        w.ovs[o].status = St::Consumed;
                        info.bump("overlay_commits_rejected");
                        if r.db().root() != pre_root || r.db().seqn() != pre_seqn || r.db().nomt.is_poisoned() {
                            return Err(v(step, "a rejected overlay commit changed root, seqn or poisoned the handle"));
                        }
                        let keys: Vec<Key> = pre_map.keys().cloned().collect();
                        hist::check_values(r.db(), &pre_map, &keys, false, step).map_err(|e| v(step, format!("after a rejected overlay commit: {}", e.msg)))?;
                    }
                }
            }
            Op::Chain { ov, probe, pick: pk } => {
                let live = w.live();
                let Some(&o) = live.get(*ov as usize) else { continue };
                let Some(c) = w.chain(o) else {
                    // broken chain (an uncommitted ancestor was dropped or consumed by a rejected commit):
                    // whatever live part we can supply must be refused
                    let mut part = vec![o];
                    let mut cur = w.ovs[o].parent;
                    while let Some(p) = cur {
                        if w.ovs[p].status == St::Live {
                            part.push(p);
                            cur = w.ovs[p].parent;
                        } else {
                            break;
                        }
                    }
                    let refs: Vec<&Overlay> = part.iter().map(|i| w.ovs[*i].handle.as_ref().unwrap()).collect();
                    let ok = r.db().chain_accepted(&refs).map_err(|f| v(step, f.sig()))?;
                    info.bump("broken_chain_probes");
                    if ok {
                        return Err(v(
                            step,
                            format!(
                                "a session was accepted on an incomplete chain: an uncommitted ancestor of the overlay was {} and is not part of the supplied chain",
                                "dropped or consumed by a rejected commit"
                            ),
                        ));
                    }
                    continue;
                };
                let handle = |i: usize| w.ovs[i].handle.as_ref().unwrap();
                let mut spec: Vec<usize> = c.clone();
                let mut expect_ok = true;
                match probe {
                    Probe::Exact => {}
                    Probe::MissingMiddle => {
                        if c.len() < 3 {
                            continue;
                        }
                        spec.remove(1 + pick(*pk, c.len() - 2));
                        expect_ok = false;
                    }
                    Probe::MissingOldest => {
                        if c.len() < 2 {
                            continue;
                        }
                        spec.pop();
                        expect_ok = false;
                    }
                    Probe::SiblingInstead => {
                        // replace some chain member (not the first) by a live sibling
                        let mut done = false;
                        for pos in 1..c.len() {
                            let m = c[pos];
                            if let Some(sib) = live.iter().find(|s| **s != m && w.ovs[**s].parent == w.ovs[m].parent && !c.contains(s)) {
                                spec[pos] = *sib;
                                done = true;
                                break;
                            }
                        }
                        if !done {
                            continue;
                        }
                        expect_ok = false;
                    }
                    Probe::WrongOrder => {
                        if c.len() < 2 {
                            continue;
                        }
                        let a = pick(*pk, c.len() - 1);
                        spec.swap(a, a + 1);
                        expect_ok = false;
                    }
                    Probe::ExtraNonAncestor => {
                        let Some(x) = live.iter().find(|x| !c.contains(x)) else { continue };
                        spec.push(*x);
                        expect_ok = false;
                    }
                }
                let refs: Vec<&Overlay> = spec.iter().map(|i| handle(*i)).collect();
                let ok = r.db().chain_accepted(&refs).map_err(|f| v(step, f.sig()))?;
                info.bump(&format!("chain_probe_{probe:?}"));
                if ok != expect_ok {
                    return Err(v(
                        step,
                        format!(
                            "SessionParams::overlay with a {:?} chain (complete chain has {} overlays, supplied {}) was {}",
                            probe,
                            c.len(),
                            spec.len(),
                            if ok { "accepted" } else { "refused" }
                        ),
                    ));
                }
                if ok && w.attached(o) {
                    // reads and proofs through the valid chain
                    let view = w.ovs[o].map.clone();
                    let q = hist::proof_queries(&view, base.salt ^ oi as u64, 10);
                    let refs: Vec<&Overlay> = c.iter().map(|i| handle(*i)).collect();
                    hist::check_proofs(r.db(), &refs, &view, &q, true, step, &mut info)?;
                    info.bump("proof_sessions_on_overlay");
                }
            }
        }
        // (e) whatever happened to overlays, the committed state is the model's
        if r.db().root() != root_of(H::KIND, &r.model.cur) || r.db().seqn() != r.model.seqn {
            return Err(v(step, format!("after {:?}: committed root / seqn differ from the model", std::mem::discriminant(op))));
        }
    }
    // drop all remaining overlays: no effect
    w.ovs.clear();
    let step = n0 + case.ops.len();
    {
        let keys: Vec<Key> = r.model.cur.keys().cloned().collect();
        hist::check_values(r.db(), &r.model.cur, &keys, false, step)?;
        hist::decode_check::<H>(&r.dir, &r.model.cur).map_err(|m| v(step, format!("after the overlay tree: {m}")))?;
    }
    // (d) rollback history: one unit per accepted overlay / plain commit
    if case.reopen_before_probe {
        r.step(step, &hist::Step::Reopen(base.cfg.clone()))?;
    }
    let mut probes = 0;
    while r.model.guaranteed >= 1 && probes < 6 {
        r.db()
            .rollback(1)
            .map_err(|f| v(step, format!("rollback probe: rollback(1) with {} retained commits failed: {}", r.model.guaranteed, f.sig())))?;
        r.model.rollback_apply(1);
        probes += 1;
        if r.db().root() != root_of(H::KIND, &r.model.cur) {
            return Err(v(step, format!("rollback probe #{probes}: rolling back a committed overlay / commit does not restore the state before it")));
        }
        let keys: Vec<Key> = r.model.cur.keys().cloned().collect();
        hist::check_values(r.db(), &r.model.cur, &keys, false, step).map_err(|e| v(step, format!("rollback probe #{probes}: {}", e.msg)))?;
    }
    info.add("rollback_probes", probes);
    let _ = gray_seen;
    let l = |k: &str| info.labels.get(k).copied().unwrap_or(0);
    info.nontrivial = l("overlay_commits_accepted") >= 1 && (l("max_chain_depth") >= 2 || l("overlays_created") >= 3);
    r.finish()?;
    Ok(info)
}

pub struct C11;
impl Check for C11 {
    type Case = C11Case;
    const ID: &'static str = "C11";
    const LEVEL: &'static str = "exploration";
    fn rule() -> String {
        "overlay TREES over a committed base (proptest history of 1..3 commits; rollback on in 60%): generated operation sequences over {new overlay on any live overlay or on the base (session opened with \
         the complete live chain; batches may delete / blindly rewrite keys that exist only in ancestor overlays; >= 25 clustered keys create fresh merkle pages inside overlays), commit overlay (blocking / \
         non-blocking), drop overlay, plain commit, rollback(n), chain probe, prepare (a session on a live chain or on the base is finished and KEPT as a finished session), commit-prepared (that finished session is committed directly, typically after its ancestor overlays have been committed: must succeed iff everything it was built on, and nothing else, has been committed in order; must fail iff the root differs; otherwise either, exact)}. Oracle: (a) sessions on a valid chain read, prove (C05 oracle against the overlay root) and compute roots (reference trie) as if \
         the chain were committed; (b) SessionParams::overlay is accepted iff the supplied list is exactly the live chain down to the first committed ancestor - probes: exact, missing middle, missing oldest, \
         sibling instead of ancestor, wrong order, extra non-ancestor appended, ancestor dropped, ancestor consumed by a rejected commit; (c) an overlay commit must succeed iff its parent is the most recent \
         commit (or it has none and nothing was committed since its creation) and must fail iff the parent is uncommitted or the base moved; rejected commits change nothing; (d) after the sequence the \
         decoded on-disk image equals the model and repeated rollback(1) (live or after reopen) restores the state before each accepted overlay / commit; (e) dropped overlays and abandoned forks have no \
         effect. Non-trivial = >= 1 accepted overlay commit and (chain depth >= 2 or >= 3 overlays); distinct = distinct serialized case".into()
    }
    fn cases(tier: Tier) -> u32 {
        tier.pick(4800, 40000)
    }
    fn strategy(tier: Tier) -> BoxedStrategy<C11Case> {
        let batch = || gen::batch_strategy(tier.pick(8, 20), tier.pick(40, 300), gen::vlen_strategy().boxed());
        let op = prop_oneof![
            8 => (0u8..6, batch()).prop_map(|(parent, batch)| Op::New { parent, batch }),
            5 => (0u8..5, any::<bool>()).prop_map(|(ov, nonblocking)| Op::Commit { ov, nonblocking }),
            2 => (0u8..5).prop_map(|ov| Op::Drop { ov }),
            1 => batch().prop_map(|batch| Op::PlainCommit { batch }),
            1 => (1u8..3).prop_map(Op::Rollback),
            2 => (0u8..6, batch()).prop_map(|(parent, batch)| Op::Prepare { parent, batch }),
            2 => (0u8..4, any::<bool>()).prop_map(|(idx, nonblocking)| Op::CommitPrepared { idx, nonblocking }),
            6 => (
                0u8..5,
                prop_oneof![
                    2 => Just(Probe::Exact),
                    1 => Just(Probe::MissingMiddle),
                    2 => Just(Probe::MissingOldest),
                    1 => Just(Probe::SiblingInstead),
                    1 => Just(Probe::WrongOrder),
                    1 => Just(Probe::ExtraNonAncestor),
                ],
                any::<u16>()
            )
                .prop_map(|(ov, probe, pick)| Op::Chain { ov, probe, pick }),
        ];
        (
            history_strategy(HistParams {
                max_steps: 3,
                max_entries: tier.pick(10, 24),
                bulk_n: tier.pick(60, 300),
                big_values: true,
                rollback: 1,
                rollback_weight: 0,
                reopen_weight: 5,
                overlay_weight: 10,
                witness_weight: 0.0,
                ext4_weight: 2,
            }),
            prop::collection::vec(op, 2..=tier.pick(14, 24)),
            any::<bool>(),
            // forced shape (1 case in 5): overlay A on the base; a session on [A] finished and kept; A committed; the kept
            // session committed directly - its pages may have been created inside A (shared pending bucket)
            prop::option::weighted(0.2, (batch(), batch(), any::<bool>())),
        )
            .prop_map(|(base, mut ops, reopen_before_probe, forced)| {
                if let Some((b1, b2, nonblocking)) = forced {
                    let head = vec![
                        Op::New { parent: 255, batch: b1 },
                        Op::Prepare { parent: 254, batch: b2 },
                        Op::Commit { ov: 0, nonblocking: false },
                        Op::CommitPrepared { idx: 0, nonblocking },
                    ];
                    ops.splice(0..0, head);
                }
                C11Case { base, ops, reopen_before_probe }
            })
            .boxed()
    }
    fn run(case: &C11Case, ctx: &Ctx) -> Result<CaseInfo, Violation> {
        match case.base.cfg.hasher {
            HasherKind::Blake3 | HasherKind::TailLabel => run_case::<B3>(case, ctx),
            HasherKind::Sha2 => run_case::<S2>(case, ctx),
        }
    }
    fn brief(case: &C11Case) -> String {
        let ops: Vec<String> = case
            .ops
            .iter()
            .map(|o| match o {
                Op::New { parent, batch } => format!("New(on {parent}, {}e)", batch.entries.len()),
                Op::Commit { ov, nonblocking } => format!("Commit({ov}{})", if *nonblocking { ",nb" } else { "" }),
                Op::Drop { ov } => format!("Drop({ov})"),
                Op::PlainCommit { .. } => "PlainCommit".into(),
                Op::Rollback(n) => format!("RB({n})"),
                Op::Chain { ov, probe, .. } => format!("Chain({ov},{probe:?})"),
                Op::Prepare { parent, batch } => format!("Prepare(on {parent}, {}e)", batch.entries.len()),
                Op::CommitPrepared { idx, nonblocking } => format!("CommitPrepared({idx}{})", if *nonblocking { ",nb" } else { "" }),
            })
            .collect();
        format!("base[{}] ops {:?} reopen_before_probe={}", case.base.brief(), ops, case.reopen_before_probe)
    }
    fn max_shrink_iters(_t: Tier) -> u32 {
        400
    }
}
