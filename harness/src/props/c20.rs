//! C20 — one directory has at most one live handle.
//!
//! Generated scenarios over one directory: rounds of (race, intrusion, end-of-holder, reopen).
//! Openers are threads of this process and child processes (`vcheck opener`), released together.

use crate::driver::{guard, Cfg, CommitOpts, Db, B3, HK, LOCK_RETRY, S2};
use crate::gen;
use crate::hist::{CaseInfo, Scratch, Violation};
use crate::iosim::{self, Ev, FailPlan, Recorder};
use crate::model::{MOp, Map};
use crate::reftrie::{HasherKind, Node};
use crate::runner::{Check, Ctx, Tier};
use crate::util::{hx8, Key, SplitMix};
use proptest::prelude::*;
use serde::{Deserialize, Serialize};
use std::io::{BufRead, BufReader, Write};
use std::path::{Path, PathBuf};
use std::process::{Child, ChildStdin, ChildStdout, Command, Stdio};
use std::sync::atomic::Ordering;
use std::sync::{Arc, Barrier};
use std::time::{Duration, Instant};

#[derive(Clone, Copy, Debug, Serialize, Deserialize, PartialEq, Eq)]
pub enum End {
    /// plain drop of the handle
    Drop,
    /// a session (with warm-up requests when warm_up is on) is begun and dropped unfinished right before the handle is dropped
    SessionThenDrop,
    /// a finished-but-uncommitted changeset / overlay is dropped right before the handle
    ChangesetThenDrop,
    /// a commit fails (injected I/O fault), the handle is poisoned, then dropped
    PoisonThenDrop,
    /// a commit fails in the value-store write phase (injected fault on one ln page write) while ANOTHER page write
    /// of the same commit is still held back in an I/O worker; the poisoned handle is dropped while a second thread
    /// keeps trying to open the directory: it may only get in once that write has completed
    PoisonHeldWriteThenDrop,
    /// the thread owning the handle panics (the handle is dropped by unwinding)
    Panic,
    /// (child holder) SIGKILL while idle
    Kill,
    /// (child holder) SIGKILL while committing in a loop
    KillBusy,
    /// (child holder) orderly drop + exit
    ChildClose,
}

#[derive(Clone, Debug, Serialize, Deserialize, PartialEq, Eq)]
pub struct Round {
    /// racing openers at the start of the round
    pub race_threads: u8,
    pub race_procs: u8,
    /// if true, a child process is given a head start so that it becomes the holder
    pub prefer_child_holder: bool,
    /// open attempts while the holder is alive
    pub intruder_threads: u8,
    pub intruder_procs: u8,
    /// the holder commits in a loop while the intruders try
    pub busy: bool,
    /// commits made by the holder before it ends
    pub commits: u8,
    pub end: End,
    /// after the end: reopen at once (false) or first watch the directory for late writers (true)
    pub watch_first: bool,
    /// PoisonThenDrop: which file class the injected fault hits (index into POISON_CLASSES), the index of
    /// the operation on that class, whether it persists, and whether the value-store part of the sync is
    /// held back (hook site) so that the failure is reported while it still has work to do
    #[serde(default)]
    pub poison: (u8, u8, bool, bool),
}

const POISON_CLASSES: [Option<&str>; 7] = [Some("wal"), Some("wal"), Some("ln"), Some("bbn"), Some("rollback"), Some("meta"), None];

#[derive(Clone, Debug, Serialize, Deserialize, PartialEq, Eq)]
pub struct C20Case {
    pub cfg: Cfg,
    pub seed: u64,
    /// commits made before the first round; 0 = the directory does not exist yet (creation race)
    pub prefill: u8,
    pub rounds: Vec<Round>,
}

/// The i-th batch of a scenario (write-only, so no prior view is needed). Shared with the child.
pub fn batch_of(seed: u64, i: u64) -> Vec<(Key, MOp)> {
    let mut s = SplitMix(seed ^ i.wrapping_mul(0x9e3779b97f4a7c15) ^ 0xc20);
    let mut b: std::collections::BTreeMap<Key, MOp> = std::collections::BTreeMap::new();
    // every fourth batch is heavy (dozens of leaves) so that a commit has background work in flight
    let heavy = is_heavy(seed, i);
    let n = if heavy { 120 + s.below(80) } else { 3 + s.below(6) };
    for j in 0..n {
        let mut k = s.key();
        if j % 3 == 0 {
            // re-used keys so that later batches overwrite / delete earlier ones
            let mut s2 = SplitMix(seed ^ (j + (i % 4)));
            k = s2.key();
        }
        let len = if heavy { 600 + s.below(700) } else { s.below(400) } as usize;
        let v = if s.below(5) == 0 && !heavy { None } else { Some(Arc::new(crate::util::value_bytes(&k, i as u32 + 1, len))) };
        b.insert(k, MOp::Write(v));
    }
    b.into_iter().collect()
}

pub fn is_heavy(seed: u64, i: u64) -> bool {
    (seed ^ i) % 4 == 0
}

fn model_after(h: HasherKind, seed: u64, n: u64) -> Map {
    let mut m = Map::new();
    for i in 0..n {
        m = crate::model::apply(h, &m, &batch_of(seed, i));
    }
    m
}

// ------------------------------------------------------------------ child side

/// `vcheck opener <dir> <cfg-json> <seed> <next-batch-index>`
pub fn opener_main(args: &[String]) -> i32 {
    let dir = PathBuf::from(&args[0]);
    let cfg: Cfg = serde_json::from_str(&args[1]).expect("cfg");
    let seed: u64 = args[2].parse().unwrap();
    let next: u64 = args[3].parse().unwrap();
    crate::driver::install_panic_hook();
    LOCK_RETRY.store(false, Ordering::Relaxed);
    match cfg.hasher {
        HasherKind::Blake3 | HasherKind::TailLabel => opener_run::<B3>(&dir, &cfg, seed, next),
        HasherKind::Sha2 => opener_run::<S2>(&dir, &cfg, seed, next),
    }
}

fn opener_run<H: HK>(dir: &Path, cfg: &Cfg, seed: u64, mut next: u64) -> i32 {
    let stdin = std::io::stdin();
    let mut out = std::io::stdout();
    let mut line = String::new();
    let _ = writeln!(out, "READY");
    let _ = out.flush();
    if stdin.lock().read_line(&mut line).unwrap_or(0) == 0 {
        return 0;
    }
    let db = match Db::<H>::open(dir, cfg) {
        Ok(db) => db,
        Err(f) => {
            let _ = writeln!(out, "ERR {}", f.sig().replace('\n', " "));
            let _ = out.flush();
            return 0;
        }
    };
    let _ = writeln!(out, "OK {}", hx8(&db.root()));
    let _ = out.flush();
    loop {
        line.clear();
        if stdin.lock().read_line(&mut line).unwrap_or(0) == 0 {
            return 0;
        }
        match line.trim() {
            "COMMIT" => {
                let r = db.commit_batch(&Map::new(), &batch_of(seed, next), &CommitOpts::default());
                match r {
                    Ok(_) => {
                        let _ = writeln!(out, "DONE {next}");
                        next += 1;
                    }
                    Err(f) => {
                        let _ = writeln!(out, "FAIL {}", f.sig().replace('\n', " "));
                    }
                }
                let _ = out.flush();
            }
            "LOOP" => loop {
                let _ = writeln!(out, "BEGIN {next}");
                let _ = out.flush();
                match db.commit_batch(&Map::new(), &batch_of(seed, next), &CommitOpts::default()) {
                    Ok(_) => {
                        let _ = writeln!(out, "DONE {next}");
                        let _ = out.flush();
                        next += 1;
                    }
                    Err(f) => {
                        let _ = writeln!(out, "FAIL {}", f.sig().replace('\n', " "));
                        let _ = out.flush();
                        return 0;
                    }
                }
            },
            "CLOSE" => {
                let r = db.close();
                let _ = writeln!(out, "{}", if r.is_ok() { "DROPPED" } else { "DROPFAIL" });
                let _ = out.flush();
                return 0;
            }
            _ => return 0,
        }
    }
}

// ------------------------------------------------------------------ parent side

struct Kid {
    child: Child,
    stdin: ChildStdin,
    stdout: BufReader<ChildStdout>,
}

impl Kid {
    fn spawn(dir: &Path, cfg: &Cfg, seed: u64, next: u64) -> Result<Kid, String> {
        let exe = std::env::current_exe().map_err(|e| e.to_string())?;
        let mut child = Command::new(exe)
            .args(["opener", dir.to_str().unwrap(), &serde_json::to_string(cfg).unwrap(), &seed.to_string(), &next.to_string()])
            .stdin(Stdio::piped())
            .stdout(Stdio::piped())
            .stderr(Stdio::null())
            .spawn()
            .map_err(|e| format!("spawn: {e}"))?;
        let stdin = child.stdin.take().unwrap();
        let stdout = BufReader::new(child.stdout.take().unwrap());
        let mut k = Kid { child, stdin, stdout };
        let l = k.line()?;
        if l != "READY" {
            return Err(format!("child said '{l}' instead of READY"));
        }
        Ok(k)
    }
    fn line(&mut self) -> Result<String, String> {
        let mut s = String::new();
        match self.stdout.read_line(&mut s) {
            Ok(0) => Err("child closed its stdout".into()),
            Ok(_) => Ok(s.trim().to_string()),
            Err(e) => Err(e.to_string()),
        }
    }
    fn say(&mut self, w: &str) {
        let _ = writeln!(self.stdin, "{w}");
        let _ = self.stdin.flush();
    }
    fn kill(mut self) {
        let _ = self.child.kill();
        let _ = self.child.wait();
    }
    fn finish(mut self) {
        drop(self.stdin);
        let t0 = Instant::now();
        loop {
            match self.child.try_wait() {
                Ok(Some(_)) => return,
                _ if t0.elapsed() > Duration::from_secs(20) => {
                    let _ = self.child.kill();
                    let _ = self.child.wait();
                    return;
                }
                _ => std::thread::sleep(Duration::from_millis(1)),
            }
        }
    }
}

fn dir_stamp(dir: &Path) -> Result<(u64, Vec<(String, u64, i128)>), String> {
    let img = iosim::read_dir_image(dir).map_err(|e| format!("INFRA: {e}"))?;
    let mut meta = Vec::new();
    for e in std::fs::read_dir(dir).map_err(|e| format!("INFRA: {e}"))? {
        let e = e.map_err(|e| format!("INFRA: {e}"))?;
        let md = e.metadata().map_err(|e| format!("INFRA: {e}"))?;
        let mt = md.modified().ok().and_then(|t| t.duration_since(std::time::UNIX_EPOCH).ok()).map(|d| d.as_nanos() as i128).unwrap_or(0);
        meta.push((e.file_name().to_string_lossy().to_string(), md.len(), mt));
    }
    meta.sort();
    Ok((iosim::image_hash(&img), meta))
}

enum Holder<H: HK> {
    Local(Db<H>),
    Kid(Kid),
}

fn run_case<H: HK>(case: &C20Case, scratch: &Scratch) -> Result<CaseInfo, Violation> {
    let mut info = CaseInfo::default();
    let rec = Recorder::install();
    rec.unwatch();
    LOCK_RETRY.store(false, Ordering::Relaxed);
    let cfg = case.cfg.clone();
    let dir = scratch.dir(cfg.fs);
    let seed = case.seed;
    let mut committed: u64 = 0;
    let viol = |step: usize, m: String| Violation { step, msg: m };

    if case.prefill > 0 {
        let db = Db::<H>::open(&dir, &cfg).map_err(|f| viol(0, f.sig()))?;
        for _ in 0..case.prefill {
            db.commit_batch(&Map::new(), &batch_of(seed, committed), &CommitOpts::default()).map_err(|f| viol(0, f.sig()))?;
            committed += 1;
        }
        db.close().map_err(|f| viol(0, f.sig()))?;
    } else if let Some(p) = dir.parent() {
        let _ = std::fs::create_dir_all(p);
    }

    for (ri, r) in case.rounds.iter().enumerate() {
        let step = ri + 1;
        // ---------------- phase 1: race
        let nt = r.race_threads as usize;
        let np = r.race_procs as usize;
        let total = nt + np;
        if total == 0 {
            continue;
        }
        let mut kids: Vec<Kid> = Vec::new();
        for _ in 0..np {
            kids.push(Kid::spawn(&dir, &cfg, seed, committed).map_err(|e| viol(step, format!("INFRA: {e}")))?);
        }
        let barrier = Arc::new(Barrier::new(nt + 1));
        let mut ths = Vec::new();
        for _ in 0..nt {
            let (b, d, c) = (barrier.clone(), dir.clone(), cfg.clone());
            ths.push(std::thread::spawn(move || {
                b.wait();
                Db::<H>::open(&d, &c)
            }));
        }
        if r.prefer_child_holder && np > 0 {
            kids[0].say("GO");
            std::thread::sleep(Duration::from_micros(300));
        }
        barrier.wait();
        for (i, k) in kids.iter_mut().enumerate() {
            if !(r.prefer_child_holder && i == 0) {
                k.say("GO");
            }
        }
        let mut local_ok: Vec<Db<H>> = Vec::new();
        let mut errs: Vec<String> = Vec::new();
        for t in ths {
            match t.join() {
                Ok(Ok(db)) => local_ok.push(db),
                Ok(Err(f)) => errs.push(f.sig()),
                Err(_) => return Err(viol(step, "an opener thread panicked outside the guarded call".into())),
            }
        }
        let mut kid_ok: Vec<Kid> = Vec::new();
        for mut k in kids {
            let l = k.line().map_err(|e| viol(step, format!("a racing opener process died during Nomt::open: {e}")))?;
            if l.starts_with("OK") {
                kid_ok.push(k);
            } else {
                errs.push(l);
                k.finish();
            }
        }
        let winners = local_ok.len() + kid_ok.len();
        info.add("open_attempts_racing", total as u64);
        if winners > 1 {
            return Err(viol(
                step,
                format!(
                    "{winners} of {total} racing Nomt::open calls on one directory succeeded ({} threads, {} processes hold a handle at the same time)",
                    local_ok.len(),
                    kid_ok.len()
                ),
            ));
        }
        if winners == 0 && case.prefill == 0 && ri == 0 {
            // Creation race nobody won: one opener found the directory absent / empty and went to create it,
            // another one found it non-empty (the first one's .lock) and took the open path, got the lock
            // first and then found no store (nomt/src/store/mod.rs: "note TOCTOU here. Deemed acceptable").
            // No handle ever existed, so no clause of the property is violated; counted, case ends here.
            for e in &errs {
                if e.contains("panic") {
                    return Err(viol(step, format!("a refused open panicked: {e}")));
                }
            }
            info.bump("creation_races_nobody_won_permitted");
            crate::hist::rm(&dir);
            return Ok(info);
        }
        if winners == 0 {
            return Err(viol(
                step,
                format!("none of {total} racing Nomt::open calls succeeded although no handle on the directory was alive: {}", errs.first().cloned().unwrap_or_default()),
            ));
        }
        for e in &errs {
            if e.contains("panic") {
                return Err(viol(step, format!("a refused open panicked: {e}")));
            }
        }
        if total >= 2 {
            info.bump("races_with_two_or_more");
        }
        if case.prefill == 0 && ri == 0 {
            info.bump("creation_races");
        }
        let mut holder: Holder<H> = match local_ok.pop() {
            Some(db) => Holder::Local(db),
            None => Holder::Kid(kid_ok.pop().unwrap()),
        };
        // the winner sees the committed state
        let want_root = crate::model::root_of(H::KIND, &model_after(H::KIND, seed, committed));
        if let Holder::Local(db) = &holder {
            if db.root() != want_root {
                return Err(viol(step, format!("the winning opener sees root {} instead of the committed root {}", hx8(&db.root()), hx8(&want_root))));
            }
        }

        // ---------------- phase 2: intrusion while the holder is alive
        for _ in 0..r.commits {
            match &mut holder {
                Holder::Local(db) => {
                    db.commit_batch(&Map::new(), &batch_of(seed, committed), &CommitOpts::default()).map_err(|f| viol(step, f.sig()))?;
                    committed += 1;
                }
                Holder::Kid(k) => {
                    k.say("COMMIT");
                    let l = k.line().map_err(|e| viol(step, format!("INFRA: holder child: {e}")))?;
                    if !l.starts_with("DONE") {
                        return Err(viol(step, format!("holder process could not commit: {l}")));
                    }
                    committed += 1;
                }
            }
        }
        let it = r.intruder_threads as usize;
        let ip = r.intruder_procs as usize;
        let busy_kid = r.busy && matches!(holder, Holder::Kid(_));
        let busy_local = r.busy && matches!(holder, Holder::Local(_));
        let before = if r.busy { None } else { Some(dir_stamp(&dir).map_err(|m| viol(step, m))?) };
        if busy_kid {
            if let Holder::Kid(k) = &mut holder {
                k.say("LOOP");
            }
        }
        let stop = Arc::new(std::sync::atomic::AtomicBool::new(false));
        let (holder2, committer) = if busy_local {
            let Holder::Local(db) = holder else { unreachable!() };
            let db = Arc::new(db);
            let (db2, stop2) = (db.clone(), stop.clone());
            let start = committed;
            let h = std::thread::spawn(move || {
                let mut n = start;
                while !stop2.load(Ordering::SeqCst) {
                    if db2.commit_batch(&Map::new(), &batch_of(seed, n), &CommitOpts::default()).is_err() {
                        break;
                    }
                    n += 1;
                }
                n
            });
            (None, Some((db, h)))
        } else {
            (Some(holder), None)
        };
        let mut ikids: Vec<Kid> = Vec::new();
        for _ in 0..ip {
            ikids.push(Kid::spawn(&dir, &cfg, seed, committed).map_err(|e| viol(step, format!("INFRA: {e}")))?);
        }
        let barrier = Arc::new(Barrier::new(it + 1));
        let mut ths = Vec::new();
        for _ in 0..it {
            let (b, d, c) = (barrier.clone(), dir.clone(), cfg.clone());
            ths.push(std::thread::spawn(move || {
                b.wait();
                Db::<H>::open(&d, &c).map(|db| {
                    let r = db.root();
                    let _ = db.close();
                    r
                })
            }));
        }
        barrier.wait();
        for k in ikids.iter_mut() {
            k.say("GO");
        }
        let mut intruded: Option<String> = None;
        for t in ths {
            match t.join() {
                Ok(Ok(_)) => intruded = Some("a thread of the same process".into()),
                Ok(Err(f)) if f.sig().contains("panic") => intruded = Some(format!("(refused open panicked: {})", f.sig())),
                Ok(Err(_)) => {}
                Err(_) => return Err(viol(step, "an intruder thread panicked outside the guarded call".into())),
            }
        }
        for mut k in ikids {
            let l = k.line().map_err(|e| viol(step, format!("an intruding opener process died during Nomt::open: {e}")))?;
            if l.starts_with("OK") {
                intruded = Some("another process".into());
            }
            k.finish();
        }
        info.add("open_attempts_while_held", (it + ip) as u64);
        if ip > 0 {
            info.bump("cross_process_intrusions");
        }
        stop.store(true, Ordering::SeqCst);
        let mut holder: Holder<H> = match (holder2, committer) {
            (Some(h), _) => h,
            (None, Some((db, h))) => {
                let n = h.join().map_err(|_| viol(step, "committer thread panicked".into()))?;
                committed = n;
                let db = Arc::try_unwrap(db).map_err(|_| viol(step, "INFRA: handle still shared".into()))?;
                Holder::Local(db)
            }
            _ => unreachable!(),
        };
        if let Some(who) = intruded {
            return Err(viol(
                step,
                format!("Nomt::open from {who} succeeded while a live handle on the directory exists{}", if r.busy { " (holder was committing)" } else { "" }),
            ));
        }
        if let Some(b) = before {
            let after = dir_stamp(&dir).map_err(|m| viol(step, m))?;
            if after != b {
                let what = if after.0 != b.0 { "file contents" } else { "file lengths / modification times" };
                return Err(viol(
                    step,
                    format!(
                        "the directory changed while its holder was idle and {} open attempts were refused ({what} differ before / after): a refused open modified it, or a background writer of the holder was still active after its last commit had returned",
                        it + ip
                    ),
                ));
            }
            info.bump("refused_opens_left_directory_untouched");
        }

        // ---------------- phase 3: the holder ends
        let mut allowed: Vec<u64> = vec![committed];
        match (holder, r.end) {
            (Holder::Kid(mut k), end) => {
                if busy_kid || matches!(end, End::KillBusy) {
                    if !busy_kid {
                        k.say("LOOP");
                    }
                    // let it run a little, then kill it in the middle of whatever it does
                    let mut s = SplitMix(seed ^ ri as u64);
                    let until = Instant::now() + Duration::from_micros(500 + s.below(6000));
                    let mut last_done = committed;
                    let mut began = committed;
                    // read progress lines without blocking past the deadline: kill first, then drain
                    std::thread::sleep(until.saturating_duration_since(Instant::now()));
                    let _ = k.child.kill();
                    let _ = k.child.wait();
                    loop {
                        match k.line() {
                            Ok(l) if l.starts_with("DONE ") => last_done = l[5..].parse::<u64>().unwrap_or(last_done) + 1,
                            Ok(l) if l.starts_with("BEGIN ") => began = l[6..].parse::<u64>().unwrap_or(began) + 1,
                            Ok(_) => {}
                            Err(_) => break,
                        }
                    }
                    allowed = (last_done.max(committed)..=began.max(last_done).max(committed)).collect();
                    info.bump("holder_killed_while_committing");
                } else if matches!(end, End::Kill | End::Panic | End::PoisonThenDrop | End::PoisonHeldWriteThenDrop) {
                    k.kill();
                    info.bump("holder_killed_idle");
                } else {
                    k.say("CLOSE");
                    let l = k.line().map_err(|e| viol(step, format!("holder process died while dropping its handle: {e}")))?;
                    if l != "DROPPED" {
                        return Err(viol(step, format!("holder process: drop failed: {l}")));
                    }
                    // NOTE: the child reported that drop(Nomt) returned; it may still be exiting.
                    info.bump("holder_child_closed");
                }
            }
            (Holder::Local(db), end) => match end {
                End::SessionThenDrop => {
                    let sess = db.begin(&[], false).map_err(|f| viol(step, f.sig()))?;
                    let mut s = SplitMix(seed ^ 0x5e55 ^ ri as u64);
                    for _ in 0..(1 + s.below(40)) {
                        let k = s.key();
                        let _ = guard("Session::warm_up", || {
                            sess.warm_up(k);
                            Ok(())
                        });
                    }
                    drop(sess);
                    db.close().map_err(|f| viol(step, f.sig()))?;
                    info.bump("end_session_then_drop");
                }
                End::ChangesetThenDrop => {
                    let sess = db.begin(&[], false).map_err(|f| viol(step, f.sig()))?;
                    let fin = db.finish(sess, &Map::new(), &batch_of(seed, committed), &CommitOpts::default()).map_err(|f| viol(step, f.sig()))?;
                    drop(fin);
                    db.close().map_err(|f| viol(step, f.sig()))?;
                    info.bump("end_changeset_then_drop");
                }
                End::PoisonThenDrop => {
                    let mut s = SplitMix(seed ^ 0xfa17 ^ ri as u64);
                    // make the failing commit a heavy one (background work on several files in flight)
                    for _ in 0..3 {
                        if is_heavy(seed, committed) {
                            break;
                        }
                        db.commit_batch(&Map::new(), &batch_of(seed, committed), &CommitOpts::default()).map_err(|f| viol(step, f.sig()))?;
                        committed += 1;
                    }
                    let (pc, pk, persistent, delayed) = r.poison;
                    // pc >= 7: the fault hits the hash-table writeout AFTER the switch-over, while the rollback log's
                    // clean-up task of the same sync (pruning: unlink of an old segment) is held back in the hook
                    let post_meta = pc >= 7;
                    let class = if post_meta { Some("ht") } else { POISON_CLASSES[pc as usize % POISON_CLASSES.len()] };
                    if post_meta {
                        rec.set_hold_unlink(Some(("rollback", 15_000 + s.below(25_000))));
                    }
                    // the value-store part of the sync may be held back for some ms (hook site inside its
                    // background task), so that a failure elsewhere is reported first
                    if delayed && !post_meta {
                        rec.set_site_delay(Some((13, 15_000 + s.below(25_000))));
                    }
                    rec.watch(&dir, Some(FailPlan { k: pk as usize, persistent, errno: libc::EIO, class }));
                    let r2 = db.commit_batch(&Map::new(), &batch_of(seed, committed), &CommitOpts::default());
                    let fired = !rec.fired().is_empty();
                    rec.unwatch();
                    rec.set_site_delay(None);
                    if post_meta && r2.is_err() {
                        info.bump("end_poison_post_switch_over_fault");
                    }
                    match (&r2, fired) {
                        (Ok(_), false) => {
                            committed += 1;
                            allowed = vec![committed];
                        }
                        (Ok(_), true) => return Err(viol(step, "INFRA: injected fault but commit succeeded (C14's business)".into())),
                        (Err(_), _) => {
                            allowed = vec![committed, committed + 1];
                            info.bump("end_poison_then_drop");
                            if delayed {
                                info.bump("end_poison_with_delayed_value_sync");
                            }
                        }
                    }
                    db.close().map_err(|f| viol(step, f.sig()))?;
                    rec.set_hold_unlink(None);
                }
                End::PoisonHeldWriteThenDrop => {
                    // needs >= 2 I/O workers (one holds a write, another one reports the failing write); reopen with that
                    let mut cfg2 = cfg.clone();
                    cfg2.io_workers = cfg2.io_workers.max(2);
                    db.close().map_err(|f| viol(step, f.sig()))?;
                    let db = Db::<H>::open(&dir, &cfg2).map_err(|f| viol(step, f.sig()))?;
                    for _ in 0..3 {
                        if is_heavy(seed, committed) {
                            break;
                        }
                        db.commit_batch(&Map::new(), &batch_of(seed, committed), &CommitOpts::default()).map_err(|f| viol(step, f.sig()))?;
                        committed += 1;
                    }
                    let mut s = SplitMix(seed ^ 0x4e1d ^ ri as u64);
                    rec.set_hold(Some(("ln", 25_000 + s.below(40_000))));
                    rec.watch(&dir, Some(FailPlan { k: 1 + s.below(3) as usize, persistent: false, errno: libc::EIO, class: Some("ln") }));
                    let r2 = db.commit_batch(&Map::new(), &batch_of(seed, committed), &CommitOpts::default());
                    let fired = !rec.fired().is_empty();
                    match (&r2, fired) {
                        (Ok(_), false) => {
                            committed += 1;
                            allowed = vec![committed];
                        }
                        (Ok(_), true) => {
                            rec.unwatch();
                            rec.set_hold(None);
                            return Err(viol(step, "INFRA: injected fault but commit succeeded (C14's business)".into()));
                        }
                        (Err(_), _) => {
                            allowed = vec![committed, committed + 1];
                        }
                    }
                    let pending_at_return = rec.in_flight_events();
                    // a second thread hammers Nomt::open while the handle is being dropped
                    let (d2, c2) = (dir.clone(), cfg2.clone());
                    let rec2 = rec.clone();
                    let spinner = std::thread::spawn(move || -> Result<Option<usize>, String> {
                        let t0 = Instant::now();
                        loop {
                            match Db::<H>::open(&d2, &c2) {
                                Ok(db) => {
                                    let pending = rec2.in_flight_events();
                                    let _ = db.close();
                                    return Ok(Some(pending));
                                }
                                Err(f) if f.sig().contains("panic") => return Err(f.sig()),
                                Err(_) => {}
                            }
                            if t0.elapsed() > Duration::from_secs(10) {
                                return Ok(None);
                            }
                            std::thread::sleep(Duration::from_micros(200));
                        }
                    });
                    std::thread::sleep(Duration::from_micros(300));
                    let closed = db.close();
                    let got = spinner.join().map_err(|_| viol(step, "opener thread panicked".into()))?;
                    rec.unwatch();
                    rec.set_hold(None);
                    closed.map_err(|f| viol(step, f.sig()))?;
                    match got {
                        Err(m) => return Err(viol(step, format!("an open attempt during the drop of a poisoned handle panicked: {m}"))),
                        Ok(None) => return Err(viol(step, "after a failed commit and drop the directory could not be opened for 10 s".into())),
                        Ok(Some(p)) if p > 0 => {
                            return Err(viol(
                                step,
                                format!("the directory was handed to a new handle while {p} file operation(s) of the previous (failed, dropped) handle were still in flight: a background writer outlived the lock"),
                            ))
                        }
                        Ok(Some(_)) => {}
                    }
                    if r2.is_err() {
                        info.bump("end_poison_with_held_write");
                        if pending_at_return > 0 {
                            info.bump("end_poison_with_write_still_in_flight_at_return");
                        }
                    }
                }
                End::Panic => {
                    let h = std::thread::spawn(move || {
                        let _keep = db;
                        panic!("holder thread panics while owning the handle");
                    });
                    let _ = h.join();
                    let _ = crate::driver::take_panics();
                    info.bump("end_panic_unwind");
                }
                _ => {
                    db.close().map_err(|f| viol(step, f.sig()))?;
                    info.bump("end_drop");
                }
            },
        }

        // ---------------- phase 4: the directory can be opened again, nobody writes any more
        if r.watch_first || matches!(r.end, End::PoisonThenDrop) {
            rec.watch(&dir, None);
            let s1 = dir_stamp(&dir).map_err(|m| viol(step, m))?;
            std::thread::sleep(Duration::from_millis(if matches!(r.end, End::PoisonThenDrop) { 50 } else { 3 }));
            let s2 = dir_stamp(&dir).map_err(|m| viol(step, m))?;
            let evs = rec.take();
            rec.unwatch();
            // an fsync that starts late (e.g. the ln/bbn fsync thread after a commit that failed early) writes
            // nothing: it is counted, not judged; "writers" are operations that change files.
            let late_fsyncs = evs.iter().filter(|e| matches!(e, Ev::Begin { kind: iosim::Kind::Fsync | iosim::Kind::FsyncDir, .. })).count();
            if late_fsyncs > 0 {
                info.add("late_fsyncs_after_end_not_judged", late_fsyncs as u64);
            }
            if let Some(Ev::Begin { file, kind, .. }) = evs.iter().find(|e| matches!(e, Ev::Begin { kind, .. } if !matches!(kind, iosim::Kind::Fsync | iosim::Kind::FsyncDir))) {
                return Err(viol(step, format!("a background writer of the old handle was still active after the handle ended: {} on '{file}' after drop returned", kind.name())));
            }
            if s1 != s2 {
                return Err(viol(step, "the directory kept changing after the handle had ended (background writer still running)".into()));
            }
            info.bump("post_end_quiescence_checked");
        }
        let t0 = Instant::now();
        let first = Db::<H>::open(&dir, &cfg);
        let db = match first {
            Ok(db) => db,
            Err(f) => {
                // how long does it stay unopenable?
                let mut waited = None;
                for _ in 0..2000 {
                    std::thread::sleep(Duration::from_millis(1));
                    if let Ok(db) = Db::<H>::open(&dir, &cfg) {
                        let _ = db.close();
                        waited = Some(t0.elapsed().as_millis());
                        break;
                    }
                }
                return Err(viol(
                    step,
                    format!(
                        "after the handle ended ({:?}) the directory could not be opened again: {} ({})",
                        r.end,
                        f.sig(),
                        match waited {
                            Some(ms) => format!("became openable {ms} ms later: the lock outlived the handle"),
                            None => "still refused 2 s later".into(),
                        }
                    ),
                ));
            }
        };
        let roots: Vec<Node> = allowed.iter().map(|n| crate::model::root_of(H::KIND, &model_after(H::KIND, seed, *n))).collect();
        let Some(pos) = roots.iter().position(|x| *x == db.root()) else {
            return Err(viol(step, format!("after reopening, the root {} is none of the states the ended holder may have left ({} candidates)", hx8(&db.root()), roots.len())));
        };
        committed = allowed[pos];
        // values of the newest batches
        let m = model_after(H::KIND, seed, committed);
        for (k, _) in batch_of(seed, committed.saturating_sub(1)) {
            let got = db.read(&k).map_err(|f| viol(step, f.sig()))?;
            if got.as_deref() != m.get(&k).map(|v| v.bytes.as_slice()) {
                return Err(viol(step, format!("after reopening, key {} does not hold the committed value", hx8(&k))));
            }
        }
        // and the new handle works
        db.commit_batch(&Map::new(), &batch_of(seed, committed), &CommitOpts::default()).map_err(|f| viol(step, format!("commit on the re-opened directory failed: {}", f.sig())))?;
        committed += 1;
        db.close().map_err(|f| viol(step, f.sig()))?;
        info.bump("reopen_after_end");
    }
    crate::hist::rm(&dir);
    let l = |k: &str| info.labels.get(k).copied().unwrap_or(0);
    info.nontrivial = l("races_with_two_or_more") >= 1 && (l("cross_process_intrusions") >= 1 || case.rounds.iter().any(|r| r.race_procs > 0));
    Ok(info)
}

pub struct C20;
impl Check for C20 {
    type Case = C20Case;
    const ID: &'static str = "C20";
    const LEVEL: &'static str = "exploration";
    fn rule() -> String {
        "generated scenarios over one directory, 1..3 rounds each: (1) RACE - 1..5 threads of the harness process and 0..3 child processes (vcheck opener, released together through a barrier / pipe) call \
         Nomt::open on an existing store or (first round, prefill 0) on an absent directory: exactly one may succeed, the winner sees the committed root; (2) INTRUSION - while the winner (a thread's handle \
         or a child process) is alive, idle or committing in a loop, 0..4 threads and 0..3 processes try to open: all must get Err (no panic), and when the holder is idle the directory (content hash, \
         file lengths, modification times incl. .lock) is identical before and after; (3) END - the holder ends by drop, by drop right after an unfinished session with warm-up requests, by drop after \
         an uncommitted changeset, by drop after a commit failed through an injected I/O fault (poisoned; the fault hits wal, ln, bbn, a rollback segment, meta, any file, or - after the switch-over - the hash-table writeout while the rollback log's pruning unlink of the same sync is held back in the hook), by drop after a commit failed while another page write of it was still held back in an I/O worker - with a second thread hammering Nomt::open during the drop, which may get in only when no operation of the old handle is in flight any more -, by a panic unwinding the owning thread, by SIGKILL idle or mid-commit, or by orderly child exit; \
         (4) REOPEN - Nomt::open right afterwards (no retry) must succeed, show the state the holder may have left (exactly the committed state, or committed/+1 for an interrupted commit), serve reads and \
         a further commit; in half of the cases the directory is first watched for 3 ms through the I/O hook and by content stamps: no write / append / resize / create / unlink event (late fsyncs are counted only) and no content change may occur after the \
         handle ended. Non-trivial = a scenario with a race of >= 2 openers and >= 1 cross-process attempt; distinct = distinct serialized case".into()
    }
    fn assumptions() -> Vec<String> {
        vec![
            "timings are sampled: openers are released together but the OS decides who runs first".into(),
            "a holder killed while CREATING a store is out of scope (no handle existed yet)".into(),
        ]
    }
    fn cases(tier: Tier) -> u32 {
        tier.pick(1920, 16000)
    }
    fn strategy(_tier: Tier) -> BoxedStrategy<C20Case> {
        let end = prop_oneof![
            3 => Just(End::Drop),
            3 => Just(End::SessionThenDrop),
            2 => Just(End::ChangesetThenDrop),
            2 => Just(End::PoisonThenDrop),
            2 => Just(End::PoisonHeldWriteThenDrop),
            1 => Just(End::Panic),
            2 => Just(End::Kill),
            2 => Just(End::KillBusy),
            1 => Just(End::ChildClose),
        ];
        let poison = (0u8..9, 0u8..3, any::<bool>(), any::<bool>());
        let round = (1u8..=5, prop::sample::select(vec![0u8, 0, 1, 1, 2, 3]), any::<bool>(), 0u8..=4, prop::sample::select(vec![0u8, 0, 1, 2, 3]), prop::bool::weighted(0.3), 0u8..=2, end, any::<bool>(), poison)
            .prop_map(|(race_threads, race_procs, prefer_child_holder, intruder_threads, intruder_procs, busy, commits, end, watch_first, poison)| Round {
                race_threads,
                race_procs,
                prefer_child_holder,
                intruder_threads,
                intruder_procs,
                busy,
                commits,
                end,
                watch_first,
                poison,
            });
        let general = (gen::cfg_strategy(any::<bool>().boxed(), 2), any::<u64>(), prop::sample::select(vec![0u8, 0, 1, 2, 3]), prop::collection::vec(round, 1..=3))
            .prop_map(|(cfg, seed, prefill, rounds)| C20Case { cfg, seed, prefill, rounds });
        // forced shape (uniform generation rarely reaches it): the very first commit on a fresh store fails in
        // one component of the sync while another one still has to grow / write its files
        let fresh_poison = (gen::cfg_strategy(any::<bool>().boxed(), 2), any::<u64>(), 1u8..=3, 0u8..=1, (0u8..7, 0u8..3, any::<bool>(), Just(true))).prop_map(|(cfg, seed, race_threads, race_procs, poison)| C20Case {
            cfg,
            seed,
            prefill: 0,
            rounds: vec![Round {
                race_threads,
                race_procs,
                prefer_child_holder: false,
                intruder_threads: 0,
                intruder_procs: 0,
                busy: false,
                commits: 0,
                end: End::PoisonThenDrop,
                watch_first: true,
                poison,
            }],
        });
        // forced shape: rollback log with one record per segment and a limit of 1..2 commits (every commit prunes),
        // a few commits, then a commit whose hash-table writeout (after the switch-over) fails while the pruning task
        // of the same sync is held back; drop; nobody may write afterwards
        let post_meta_poison = (gen::cfg_strategy(Just(true).boxed(), 2), any::<u64>(), 2u8..=3, 1u8..=2, 0u8..3, any::<bool>()).prop_map(|(mut cfg, seed, prefill, max_log, k, persistent)| {
            cfg.rollback = true;
            cfg.max_log = max_log as u32;
            cfg.seg_records = 1;
            C20Case {
                cfg,
                seed,
                prefill,
                rounds: vec![Round {
                    race_threads: 1,
                    race_procs: 0,
                    prefer_child_holder: false,
                    intruder_threads: 0,
                    intruder_procs: 0,
                    busy: false,
                    commits: 2,
                    end: End::PoisonThenDrop,
                    watch_first: true,
                    poison: (7, k, persistent, true),
                }],
            }
        });
        prop_oneof![17 => general, 2 => fresh_poison, 1 => post_meta_poison].boxed()
    }
    fn run(case: &C20Case, ctx: &Ctx) -> Result<CaseInfo, Violation> {
        match case.cfg.hasher {
            HasherKind::Blake3 | HasherKind::TailLabel => run_case::<B3>(case, &ctx.scratch),
            HasherKind::Sha2 => run_case::<S2>(case, &ctx.scratch),
        }
    }
    fn brief(case: &C20Case) -> String {
        format!(
            "cfg[{}] prefill={} rounds={}",
            case.cfg.brief(),
            case.prefill,
            case.rounds
                .iter()
                .map(|r| format!(
                    "[race {}t+{}p{} | intrude {}t+{}p{} | {} commits | end {:?}{}]",
                    r.race_threads,
                    r.race_procs,
                    if r.prefer_child_holder { " child-first" } else { "" },
                    r.intruder_threads,
                    r.intruder_procs,
                    if r.busy { " busy" } else { "" },
                    r.commits,
                    r.end,
                    if r.watch_first { " watch" } else { "" }
                ))
                .collect::<Vec<_>>()
                .join(" ")
        )
    }
    fn max_shrink_iters(_t: Tier) -> u32 {
        80
    }
}
