//! Sequential reference model of the store: a persistent ordered map plus snapshot stack.

use crate::reftrie::{HasherKind, Node, RefTrie};
use crate::util::Key;
use std::sync::Arc;

#[derive(Clone, Debug, PartialEq, Eq)]
pub struct Val {
    pub bytes: Arc<Vec<u8>>,
    pub vh: [u8; 32],
}

pub type Map = imbl::OrdMap<Key, Val>;

/// One key operation of a batch, with *truthful* prior values already filled in by the driver.
#[derive(Clone, Debug)]
pub enum MOp {
    Read,
    Write(Option<Arc<Vec<u8>>>),
    ReadThenWrite(Option<Arc<Vec<u8>>>),
}

impl MOp {
    pub fn is_write(&self) -> bool {
        !matches!(self, MOp::Read)
    }
    pub fn new_value(&self) -> Option<Option<Arc<Vec<u8>>>> {
        match self {
            MOp::Read => None,
            MOp::Write(v) | MOp::ReadThenWrite(v) => Some(v.clone()),
        }
    }
}

pub fn apply(h: HasherKind, map: &Map, batch: &[(Key, MOp)]) -> Map {
    let mut m = map.clone();
    for (k, op) in batch {
        if let Some(nv) = op.new_value() {
            match nv {
                Some(bytes) => {
                    let vh = h.hash_value(&bytes);
                    m.insert(*k, Val { bytes, vh });
                }
                None => {
                    m.remove(k);
                }
            }
        }
    }
    m
}

pub fn kv_hashes(map: &Map) -> Vec<(Key, [u8; 32])> {
    map.iter().map(|(k, v)| (*k, v.vh)).collect()
}

pub fn root_of(h: HasherKind, map: &Map) -> Node {
    let kv = kv_hashes(map);
    RefTrie::new(h, &kv).root()
}

#[derive(Clone)]
pub struct Model {
    pub h: HasherKind,
    pub cur: Map,
    /// Snapshots: `snaps[i]` is the state before the (i+1)-th retained commit. `snaps.len()` = number
    /// of commits that could conceivably be rolled back.
    pub snaps: Vec<Map>,
    pub seqn: u32,
    pub rollback: bool,
    pub max_log: usize,
    /// Lower bound on the number of deltas the store must have retained.
    pub guaranteed: usize,
}

impl Model {
    pub fn new(h: HasherKind, rollback: bool, max_log: usize) -> Self {
        Model {
            h,
            cur: Map::new(),
            snaps: Vec::new(),
            seqn: 0,
            rollback,
            max_log,
            guaranteed: 0,
        }
    }
    pub fn root(&self) -> Node {
        root_of(self.h, &self.cur)
    }
    pub fn keys(&self) -> Vec<Key> {
        self.cur.keys().cloned().collect()
    }
    pub fn commit(&mut self, batch: &[(Key, MOp)]) {
        let next = apply(self.h, &self.cur, batch);
        if self.rollback {
            self.snaps.push(self.cur.clone());
            self.guaranteed = (self.guaranteed + 1).min(self.max_log);
        }
        self.cur = next;
        self.seqn += 1;
    }
    /// State `n` commits ago, if the model still knows it.
    pub fn state_back(&self, n: usize) -> Option<&Map> {
        if n == 0 {
            Some(&self.cur)
        } else if n <= self.snaps.len() {
            Some(&self.snaps[self.snaps.len() - n])
        } else {
            None
        }
    }
    pub fn rollback_apply(&mut self, n: usize) {
        assert!(n >= 1 && n <= self.snaps.len());
        let idx = self.snaps.len() - n;
        self.cur = self.snaps[idx].clone();
        self.snaps.truncate(idx);
        self.guaranteed = self.guaranteed.saturating_sub(n);
        self.seqn += 1;
    }
}
