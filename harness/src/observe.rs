//! Oracles for proofs (C05) and witnesses (C06), judged against the model.

use crate::driver::HK;
use crate::model::{kv_hashes, root_of, MOp, Map};
use crate::reftrie::{Node, RefTrie, Terminal, TERMINATOR};
use crate::util::{get_bit, hx8, Key};
use bitvec::prelude::*;
use nomt::Witness;
use nomt_core::proof::{verify_update, PathProof, PathProofTerminal, PathUpdate};
use nomt_core::trie::LeafData;
use std::collections::BTreeMap;
use std::panic::{catch_unwind, AssertUnwindSafe};

pub struct ProofInfo {
    pub siblings: usize,
    pub present: bool,
    pub under_leaf: bool,
}

fn cu<T>(what: &str, f: impl FnOnce() -> T) -> Result<T, String> {
    catch_unwind(AssertUnwindSafe(f)).map_err(|_| {
        let p = crate::driver::take_panics();
        format!("panic in {what}: {}", p.first().cloned().unwrap_or_default())
    })
}

/// Independent re-computation of the root a path proof commits to.
fn independent_root<H: HK>(proof: &PathProof, q: &Key) -> Node {
    let mut node = match &proof.terminal {
        PathProofTerminal::Leaf(l) => H::KIND.leaf(&l.key_path, &l.value_hash),
        PathProofTerminal::Terminator(_) => TERMINATOR,
    };
    let n = proof.siblings.len();
    for d in (0..n).rev() {
        let sib = proof.siblings[d];
        node = if get_bit(q, d) {
            H::KIND.internal(&sib, &node)
        } else {
            H::KIND.internal(&node, &sib)
        };
    }
    node
}

/// C05 oracle: the proof verifies against `root` and confirms exactly the view's answer for `q`.
pub fn check_proof<H: HK>(
    proof: &PathProof,
    q: &Key,
    view: &Map,
    root: Node,
) -> Result<ProofInfo, String> {
    if proof.siblings.len() > 256 {
        return Err(format!("proof for {} has {} siblings", hx8(q), proof.siblings.len()));
    }
    let v = cu("PathProof::verify", || {
        proof.verify::<H::N>(q.view_bits::<Msb0>(), root)
    })?
    .map_err(|e| format!("proof for {} does not verify against session root: {e:?}", hx8(q)))?;
    if independent_root::<H>(proof, q) != root {
        return Err(format!(
            "proof for {} verifies by nomt's verifier but not by the reference hash chain",
            hx8(q)
        ));
    }
    let present = view.get(q);
    let mut under_leaf = false;
    match present {
        Some(val) => {
            let leaf = LeafData {
                key_path: *q,
                value_hash: val.vh,
            };
            match cu("confirm_value", || v.confirm_value(&leaf))? {
                Ok(true) => {}
                other => {
                    return Err(format!(
                        "present key {}: confirm_value(model value) = {other:?}",
                        hx8(q)
                    ))
                }
            }
            match cu("confirm_nonexistence", || v.confirm_nonexistence(q))? {
                Ok(false) => {}
                other => {
                    return Err(format!(
                        "present key {}: confirm_nonexistence = {other:?}",
                        hx8(q)
                    ))
                }
            }
            let mut wrong = leaf.clone();
            wrong.value_hash[5] ^= 1;
            match cu("confirm_value", || v.confirm_value(&wrong))? {
                Ok(false) => {}
                other => {
                    return Err(format!(
                        "present key {}: confirm_value(wrong hash) = {other:?}",
                        hx8(q)
                    ))
                }
            }
        }
        None => {
            match cu("confirm_nonexistence", || v.confirm_nonexistence(q))? {
                Ok(true) => {}
                other => {
                    return Err(format!(
                        "absent key {}: confirm_nonexistence = {other:?}",
                        hx8(q)
                    ))
                }
            }
            let leaf = LeafData {
                key_path: *q,
                value_hash: [0x5a; 32],
            };
            match cu("confirm_value", || v.confirm_value(&leaf))? {
                Ok(false) => {}
                other => {
                    return Err(format!(
                        "absent key {}: confirm_value(any) = {other:?}",
                        hx8(q)
                    ))
                }
            }
            under_leaf = matches!(proof.terminal, PathProofTerminal::Leaf(_));
        }
    }
    Ok(ProofInfo {
        siblings: proof.siblings.len(),
        present: present.is_some(),
        under_leaf,
    })
}

/// Reference check of a proof's *shape*: siblings and terminal equal the reference lookup.
pub fn check_proof_shape<H: HK>(proof: &PathProof, q: &Key, view: &Map) -> Result<(), String> {
    let kv = kv_hashes(view);
    let t = RefTrie::new(H::KIND, &kv);
    let (_d, term, sibs) = t.lookup(q);
    if sibs != proof.siblings {
        return Err(format!(
            "proof for {}: siblings differ from reference lookup ({} vs {} siblings)",
            hx8(q),
            proof.siblings.len(),
            sibs.len()
        ));
    }
    match (&term, &proof.terminal) {
        (Terminal::Leaf { key, vh }, PathProofTerminal::Leaf(l))
            if l.key_path == *key && l.value_hash == *vh => {}
        (Terminal::Terminator, PathProofTerminal::Terminator(_)) => {}
        _ => return Err(format!("proof for {}: terminal differs from reference", hx8(q))),
    }
    Ok(())
}

#[derive(Default)]
pub struct WitnessInfo {
    pub paths: usize,
    pub reads: usize,
    pub writes: usize,
    pub max_ops_per_path: usize,
    pub root_page_terminal: bool,
}

/// C06 oracle: the stateless verifier of `examples/witness_verification` plus completeness.
pub fn check_witness<H: HK>(
    w: &Witness,
    prev_root: Node,
    reported_root: Node,
    view: &Map,
    batch: &[(Key, MOp)],
    post: &Map,
) -> Result<WitnessInfo, String> {
    let mut info = WitnessInfo::default();
    info.paths = w.path_proofs.len();
    info.reads = w.operations.reads.len();
    info.writes = w.operations.writes.len();

    // every path verifies
    let mut verified = Vec::new();
    for (i, wp) in w.path_proofs.iter().enumerate() {
        let v = cu("WitnessedPath verify", || {
            wp.inner.verify::<H::N>(wp.path.path(), prev_root)
        })?
        .map_err(|e| format!("witness path {i} does not verify against prev_root: {e:?}"))?;
        if wp.path.depth() < 6 {
            info.root_page_terminal = true;
        }
        verified.push(v);
    }

    // reads: exactly one per Read / ReadThenWrite key, truthful
    let mut reads: BTreeMap<Key, Vec<(Option<[u8; 32]>, usize)>> = BTreeMap::new();
    for r in &w.operations.reads {
        reads.entry(r.key).or_default().push((r.value, r.path_index));
    }
    let mut writes: BTreeMap<Key, Vec<(Option<[u8; 32]>, usize)>> = BTreeMap::new();
    for wr in &w.operations.writes {
        writes.entry(wr.key).or_default().push((wr.value, wr.path_index));
    }
    let mut expect_reads = 0;
    let mut expect_writes = 0;
    for (k, op) in batch {
        let is_read = matches!(op, MOp::Read | MOp::ReadThenWrite(_));
        if is_read {
            expect_reads += 1;
            let got = reads
                .get(k)
                .ok_or_else(|| format!("witness has no read for read key {}", hx8(k)))?;
            if got.len() != 1 {
                return Err(format!("witness has {} reads for key {}", got.len(), hx8(k)));
            }
            let (val, pi) = got[0];
            let want = view.get(k).map(|v| v.vh);
            if val != want {
                return Err(format!(
                    "witnessed read of {} attests {:?}, session observed {:?}",
                    hx8(k),
                    val.map(|v| hx8(&v)),
                    want.map(|v| hx8(&v))
                ));
            }
            let v = verified
                .get(pi)
                .ok_or_else(|| format!("read path_index {pi} out of range"))?;
            let ok = match val {
                None => cu("confirm_nonexistence", || v.confirm_nonexistence(k))?,
                Some(vh) => cu("confirm_value", || {
                    v.confirm_value(&LeafData {
                        key_path: *k,
                        value_hash: vh,
                    })
                })?,
            };
            if !matches!(ok, Ok(true)) {
                return Err(format!(
                    "witnessed read of {} not confirmed by its path: {ok:?}",
                    hx8(k)
                ));
            }
        }
        if let Some(nv) = op.new_value() {
            expect_writes += 1;
            let got = writes
                .get(k)
                .ok_or_else(|| format!("witness has no write for written key {}", hx8(k)))?;
            if got.len() != 1 {
                return Err(format!("witness has {} writes for key {}", got.len(), hx8(k)));
            }
            let want = nv.map(|b| H::KIND.hash_value(&b));
            if got[0].0 != want {
                return Err(format!("witnessed write of {} has wrong value hash", hx8(k)));
            }
            if got[0].1 >= verified.len() {
                return Err(format!("write path_index {} out of range", got[0].1));
            }
        }
    }
    if expect_reads != w.operations.reads.len() {
        return Err(format!(
            "witness has {} reads, batch has {} read keys",
            w.operations.reads.len(),
            expect_reads
        ));
    }
    if expect_writes != w.operations.writes.len() {
        return Err(format!(
            "witness has {} writes, batch has {} written keys",
            w.operations.writes.len(),
            expect_writes
        ));
    }

    // group writes by path, sort groups by path, verify_update
    let mut groups: BTreeMap<usize, Vec<(Key, Option<[u8; 32]>)>> = BTreeMap::new();
    for wr in &w.operations.writes {
        groups.entry(wr.path_index).or_default().push((wr.key, wr.value));
    }
    let mut updates: Vec<PathUpdate> = Vec::new();
    for (pi, mut ops) in groups {
        ops.sort();
        info.max_ops_per_path = info.max_ops_per_path.max(ops.len());
        updates.push(PathUpdate {
            inner: verified[pi].clone(),
            ops,
        });
    }
    updates.sort_by(|a, b| a.inner.path().cmp(b.inner.path()));
    let got = cu("verify_update", || verify_update::<H::N>(prev_root, &updates))?
        .map_err(|e| format!("verify_update over the witnessed writes failed: {e:?}"))?;
    if got != reported_root {
        return Err(format!(
            "verify_update gives {} but the store reported {}",
            hx8(&got),
            hx8(&reported_root)
        ));
    }
    let want = root_of(H::KIND, post);
    if got != want {
        return Err(format!(
            "verify_update root {} != reference root of the post state {}",
            hx8(&got),
            hx8(&want)
        ));
    }
    Ok(info)
}
