//! vcheck — orchestrator / worker / replay entry point.
//!
//!   vcheck run <ID> <quick|thorough>
//!   vcheck worker <ID> <tier> <seed> <shard> <nshards> <outfile>
//!   vcheck replay <ID> <file>

use nomt_verif::props;
use nomt_verif::runner::{self, Check, Evidence, ShardOut, Tier};
use std::path::{Path, PathBuf};
use std::process::{Command, Stdio};
use std::time::Instant;

macro_rules! with_check {
    ($id:expr, $f:ident, $($arg:expr),*) => {
        match $id {
            "C01" => $f::<props::c01::C01>($($arg),*),
            "C02" => $f::<props::c02::C02>($($arg),*),
            "C03" => $f::<props::c03::C03>($($arg),*),
            "C04" => $f::<props::c03::C04>($($arg),*),
            "C05" => $f::<props::c05::C05>($($arg),*),
            "C06" => $f::<props::c06::C06>($($arg),*),
            "C07" => $f::<props::core::C07>($($arg),*),
            "C08" => $f::<props::core::C08>($($arg),*),
            "C09" => $f::<props::c09::C09>($($arg),*),
            "C15" => $f::<props::c15::C15>($($arg),*),
            "C16" => $f::<props::c16::C16>($($arg),*),
            "C17" => $f::<props::c17::C17>($($arg),*),
            "C18" => $f::<props::core::C18>($($arg),*),
            "C19" => $f::<props::c16::C19>($($arg),*),
            "C10" => $f::<props::c10::C10>($($arg),*),
            "C11" => $f::<props::c11::C11>($($arg),*),
            "C12" => $f::<props::c12::C12>($($arg),*),
            "C13" => $f::<props::c13::C13>($($arg),*),
            "C14" => $f::<props::c14::C14>($($arg),*),
            "C20" => $f::<props::c20::C20>($($arg),*),
            other => {
                eprintln!("unknown check {other}");
                std::process::exit(2);
            }
        }
    };
}

fn tier_of(s: &str) -> Tier {
    match s {
        "quick" => Tier::Quick,
        "thorough" => Tier::Thorough,
        _ => {
            eprintln!("bad tier {s}");
            std::process::exit(2)
        }
    }
}

fn seed() -> u64 {
    std::env::var("VERIF_SEED")
        .ok()
        .and_then(|s| s.parse().ok())
        .unwrap_or(1)
}

fn worker<C: Check>(tier: Tier, seed: u64, shard: u32, nshards: u32, out: &Path) -> i32 {
    nomt_verif::driver::install_panic_hook();
    runner::start_watchdog(
        std::env::var("VERIF_WATCHDOG_S")
            .ok()
            .and_then(|s| s.parse().ok())
            .unwrap_or(300),
    );
    let current = out.with_extension("current");
    let o = runner::run_shard::<C>(tier, seed, shard, nshards, Some(&current));
    std::fs::write(out, serde_json::to_string(&o).unwrap()).expect("write shard out");
    let _ = std::fs::remove_file(&current);
    0
}

fn replay<C: Check>(file: &Path) -> i32 {
    nomt_verif::driver::install_panic_hook();
    runner::start_watchdog(600);
    match runner::replay_file::<C>(file, Tier::Quick) {
        Ok(info) => {
            println!("replay {} holds (labels: {:?})", file.display(), info.labels);
            0
        }
        Err(v) => {
            let known = runner::load_known(C::ID);
            if let Some(k) = runner::match_known(&known, &v.msg) {
                println!("KNOWN-FINDING: property={} {} [{}]", C::ID, k.description, k.id);
                return 0;
            }
            println!("violation at step {}: {}", v.step, v.msg);
            println!("VIOLATION property={} replay={}", C::ID, file.display());
            1
        }
    }
}

fn shrink<C: Check>(file: &Path) -> i32 {
    nomt_verif::driver::install_panic_hook();
    match runner::shrink_file::<C>(file, 600) {
        None => {
            println!("case does not fail; nothing to shrink");
            0
        }
        Some((case, v)) => {
            let out = file.with_extension("shrunk.json");
            let r = runner::Replay::<C::Case> {
                property: C::ID.to_string(),
                message: v.msg.clone(),
                step: v.step,
                case,
            };
            std::fs::write(&out, serde_json::to_string_pretty(&r).unwrap()).unwrap();
            println!("shrunk case written to {} ({})", out.display(), v.msg);
            1
        }
    }
}

fn orchestrate<C: Check>(tier: Tier) -> i32 {
    let t0 = Instant::now();
    let seed = seed();
    nomt_verif::hist::sweep_stale_scratch();
    let exe = std::env::current_exe().unwrap();
    let mut violations: Vec<(String, String)> = Vec::new();
    let mut known_lines: Vec<String> = Vec::new();
    let mut inconclusive: Vec<String> = Vec::new();

    // 1. regression tier: committed replays
    let mut replayed = 0u64;
    let rdir = runner::replay_dir(C::ID);
    if let Ok(rd) = std::fs::read_dir(&rdir) {
        let mut files: Vec<PathBuf> = rd
            .filter_map(|e| e.ok())
            .map(|e| e.path())
            .filter(|p| p.extension().map_or(false, |e| e == "json"))
            .collect();
        files.sort();
        for f in files {
            let st = Command::new(&exe)
                .args(["replay", C::ID, f.to_str().unwrap()])
                .stdout(Stdio::piped())
                .stderr(Stdio::null())
                .output()
                .expect("spawn replay");
            replayed += 1;
            let out = String::from_utf8_lossy(&st.stdout).to_string();
            match st.status.code() {
                Some(0) => {
                    for l in out.lines().filter(|l| l.starts_with("KNOWN-FINDING")) {
                        known_lines.push(l.to_string());
                    }
                }
                Some(1) => {
                    let msg = out.lines().find(|l| l.starts_with("violation")).unwrap_or("").to_string();
                    violations.push((f.display().to_string(), msg));
                }
                Some(3) => inconclusive.push(format!("replay {} hit the watchdog", f.display())),
                _ => {
                    // abnormal termination of a replay of a saved case = the case crashes the process
                    violations.push((
                        f.display().to_string(),
                        format!("replay terminated abnormally ({:?})", st.status),
                    ));
                }
            }
        }
    }

    // 2. generated search over worker processes
    let nshards: u32 = std::env::var("VERIF_SHARDS")
        .ok()
        .and_then(|s| s.parse().ok())
        .unwrap_or(16)
        .min(C::cases(tier).max(1));
    let tmp = PathBuf::from(format!("/dev/shm/nomt-verif-out.{}.{}", std::process::id(), C::ID));
    let _ = std::fs::remove_dir_all(&tmp);
    std::fs::create_dir_all(&tmp).unwrap();
    let mut children = Vec::new();
    for shard in 0..nshards {
        let out = tmp.join(format!("shard{shard}.json"));
        let child = Command::new(&exe)
            .args([
                "worker",
                C::ID,
                tier.name(),
                &seed.to_string(),
                &shard.to_string(),
                &nshards.to_string(),
                out.to_str().unwrap(),
            ])
            .stdout(Stdio::null())
            .stderr(Stdio::piped())
            .spawn()
            .expect("spawn worker");
        children.push((shard, out, child));
    }
    let mut outs: Vec<ShardOut> = Vec::new();
    for (shard, out, child) in children {
        let res = child.wait_with_output().expect("wait worker");
        let code = res.status.code();
        if code == Some(0) && out.exists() {
            let o: ShardOut = serde_json::from_str(&std::fs::read_to_string(&out).unwrap()).unwrap();
            outs.push(o);
            continue;
        }
        let current = out.with_extension("current");
        let stderr_tail: String = String::from_utf8_lossy(&res.stderr)
            .lines()
            .rev()
            .take(5)
            .collect::<Vec<_>>()
            .join(" | ");
        if code == Some(3) {
            inconclusive.push(format!("shard {shard} hit the watchdog: {stderr_tail}"));
            continue;
        }
        if code == Some(4) && current.exists() {
            // a check whose property forbids hangs declared one (see props/c14.rs, c15.rs)
            let dir = runner::found_dir(C::ID);
            let _ = std::fs::create_dir_all(&dir);
            let dst = dir.join(format!("hang-shard{shard}-seed{seed}.json"));
            let _ = std::fs::copy(&current, &dst);
            violations.push((dst.display().to_string(), format!("operation hung: {stderr_tail}")));
            continue;
        }
        // abnormal termination: try to attribute it to the case that was running
        if current.exists() {
            let dir = runner::found_dir(C::ID);
            let _ = std::fs::create_dir_all(&dir);
            let dst = dir.join(format!("abort-shard{shard}-seed{seed}.json"));
            let _ = std::fs::copy(&current, &dst);
            let st = Command::new(&exe)
                .args(["replay", C::ID, dst.to_str().unwrap()])
                .stdout(Stdio::piped())
                .stderr(Stdio::null())
                .output()
                .expect("spawn replay");
            match st.status.code() {
                Some(0) => inconclusive.push(format!(
                    "shard {shard} died ({:?}) but its last case replays fine: {stderr_tail}",
                    res.status
                )),
                Some(3) => inconclusive.push(format!("shard {shard} died; replay hit watchdog")),
                _ => violations.push((
                    dst.display().to_string(),
                    format!("worker process terminated abnormally ({:?}) and so does the replay of its last case: {stderr_tail}", res.status),
                )),
            }
        } else {
            inconclusive.push(format!("shard {shard} died ({:?}): {stderr_tail}", res.status));
        }
    }
    let _ = std::fs::remove_dir_all(&tmp);
    let m = runner::merge(outs);
    for i in &m.infra {
        inconclusive.push(i.clone());
    }
    violations.extend(m.violations.iter().cloned());
    let mut known_ids = std::collections::BTreeMap::new();
    for (id, msg) in &m.known {
        known_ids.entry(id.clone()).or_insert_with(|| msg.clone());
    }
    let known = runner::load_known(C::ID);
    for (id, msg) in &known_ids {
        let d = known.iter().find(|k| &k.id == id).map(|k| k.description.clone()).unwrap_or_default();
        known_lines.push(format!("KNOWN-FINDING: property={} {} [{}] e.g. {}", C::ID, d, id, msg));
    }
    known_lines.sort();
    known_lines.dedup();

    // summary of an extra stage run by run.sh before us (coverage-guided fuzzing of the pure-core checks)
    let extra: Option<serde_json::Value> = std::env::var("VERIF_EXTRA_COVERAGE_FILE")
        .ok()
        .and_then(|p| std::fs::read_to_string(p).ok())
        .and_then(|s| serde_json::from_str(&s).ok());
    let extra_execs = extra.as_ref().and_then(|e| e.get("executions")).and_then(|x| x.as_u64()).unwrap_or(0);
    let extra_viol = extra.as_ref().and_then(|e| e.get("violations")).and_then(|x| x.as_i64()).unwrap_or(0);
    let coverage = serde_json::json!({
        "evaluations": m.evaluations + replayed + extra_execs,
        "coverage_guided_stage": extra,
        "distinct_nontrivial": m.nontrivial.len(),
        "rule": C::rule(),
        "samples": m.samples,
        "labels": m.labels,
        "discarded": m.discarded,
        "replayed_regression_cases": replayed,
        "known_finding_hits": m.known.len(),
        "shards": nshards,
        "inconclusive": inconclusive,
    });
    runner::write_evidence(&Evidence {
        property_id: C::ID.to_string(),
        tier: tier.name().to_string(),
        seed,
        level: C::LEVEL.to_string(),
        coverage,
        assumptions: C::assumptions(),
        wall_s: t0.elapsed().as_secs_f64(),
        violations: violations.len() as i64 + extra_viol,
    });
    for l in &known_lines {
        println!("{l}");
    }
    println!(
        "{} {}: {} cases, {} distinct non-trivial, {} regression replays, {:.1}s",
        C::ID,
        tier.name(),
        m.evaluations,
        m.nontrivial.len(),
        replayed,
        t0.elapsed().as_secs_f64()
    );
    if !violations.is_empty() {
        for (path, msg) in &violations {
            println!("  {msg}");
            println!("VIOLATION property={} replay={}", C::ID, path);
        }
        return 1;
    }
    if !inconclusive.is_empty() {
        for i in &inconclusive {
            eprintln!("INCONCLUSIVE: {i}");
        }
        return 2;
    }
    0
}

fn main() {
    let args: Vec<String> = std::env::args().collect();
    let code = match args.get(1).map(|s| s.as_str()) {
        Some("run") => {
            let tier = tier_of(&args[3]);
            with_check!(args[2].as_str(), orchestrate, tier)
        }
        Some("worker") => {
            let tier = tier_of(&args[3]);
            let seed: u64 = args[4].parse().unwrap();
            let shard: u32 = args[5].parse().unwrap();
            let nshards: u32 = args[6].parse().unwrap();
            let out = PathBuf::from(&args[7]);
            with_check!(args[2].as_str(), worker, tier, seed, shard, nshards, &out)
        }
        Some("opener") => props::c20::opener_main(&args[2..]),
        Some("shrink") => {
            let f = PathBuf::from(&args[3]);
            with_check!(args[2].as_str(), shrink, &f)
        }
        Some("replay") => {
            let f = PathBuf::from(&args[3]);
            with_check!(args[2].as_str(), replay, &f)
        }
        _ => {
            eprintln!("usage: vcheck run <ID> <quick|thorough> | replay <ID> <file>");
            2
        }
    };
    std::process::exit(code);
}
