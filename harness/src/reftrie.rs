//! Reference binary Merkle-Patricia trie, written from the specification and `core/src/hasher.rs`
//! conventions only: terminator = 0^32; leaf = H(key ‖ value_hash) with MSB set; internal =
//! H(left ‖ right) with MSB cleared. Uses the blake3 / sha2 crates directly, nothing from nomt.

use crate::util::{get_bit, Key};
use serde::{Deserialize, Serialize};

pub type Node = [u8; 32];
pub const TERMINATOR: Node = [0u8; 32];

#[derive(Clone, Copy, Debug, PartialEq, Eq, Serialize, Deserialize)]
pub enum HasherKind {
    Blake3,
    Sha2,
    /// blake3 with the node kind kept in the two LOW bits of the LAST byte (01 = leaf, 10 = internal) instead of the
    /// MSB: `NodeHasher` explicitly allows labelling schemes other than the MSB one. Used by the pure-core checks only.
    TailLabel,
}

impl HasherKind {
    pub fn hash_value(self, v: &[u8]) -> [u8; 32] {
        match self {
            HasherKind::Blake3 | HasherKind::TailLabel => *blake3::hash(v).as_bytes(),
            HasherKind::Sha2 => {
                use sha2::Digest;
                sha2::Sha256::digest(v).into()
            }
        }
    }
    fn h64(self, a: &[u8; 32], b: &[u8; 32]) -> [u8; 32] {
        let mut buf = [0u8; 64];
        buf[..32].copy_from_slice(a);
        buf[32..].copy_from_slice(b);
        self.hash_value(&buf)
    }
    pub fn leaf(self, key: &Key, vh: &[u8; 32]) -> Node {
        let mut h = self.h64(key, vh);
        if self == HasherKind::TailLabel {
            h[31] = (h[31] & 0xfc) | 1;
        } else {
            h[0] |= 0x80;
        }
        h
    }
    pub fn internal(self, l: &Node, r: &Node) -> Node {
        let mut h = self.h64(l, r);
        if self == HasherKind::TailLabel {
            h[31] = (h[31] & 0xfc) | 2;
        } else {
            h[0] &= 0x7f;
        }
        h
    }
}

pub fn is_leaf(n: &Node) -> bool {
    n[0] & 0x80 != 0
}
pub fn is_internal(n: &Node) -> bool {
    !is_leaf(n) && *n != TERMINATOR
}

/// Terminal found when looking up a key.
#[derive(Clone, Debug, PartialEq, Eq)]
pub enum Terminal {
    Leaf { key: Key, vh: [u8; 32] },
    Terminator,
}

/// Reference trie over a sorted, duplicate-free `(key, value_hash)` slice.
pub struct RefTrie<'a> {
    pub h: HasherKind,
    pub kv: &'a [(Key, [u8; 32])],
}

impl<'a> RefTrie<'a> {
    pub fn new(h: HasherKind, kv: &'a [(Key, [u8; 32])]) -> Self {
        debug_assert!(kv.windows(2).all(|w| w[0].0 < w[1].0));
        RefTrie { h, kv }
    }

    pub fn root(&self) -> Node {
        self.node(self.kv, 0)
    }

    /// Node value of the sub-trie holding exactly `kv`, all of which share their first `depth` bits.
    pub fn node(&self, kv: &[(Key, [u8; 32])], depth: usize) -> Node {
        match kv.len() {
            0 => TERMINATOR,
            1 => self.h.leaf(&kv[0].0, &kv[0].1),
            _ => {
                let split = kv.partition_point(|(k, _)| !get_bit(k, depth));
                let l = self.node(&kv[..split], depth + 1);
                let r = self.node(&kv[split..], depth + 1);
                self.h.internal(&l, &r)
            }
        }
    }

    /// The keys whose first `path.len()` bits equal `path`.
    pub fn under(&self, path: &[bool]) -> &'a [(Key, [u8; 32])] {
        let mut s = self.kv;
        for (d, b) in path.iter().enumerate() {
            let split = s.partition_point(|(k, _)| !get_bit(k, d));
            s = if *b { &s[split..] } else { &s[..split] };
        }
        s
    }

    /// Node at a bit path **as stored in the paged trie**: the value of the sub-trie under `path`
    /// provided every proper ancestor is internal; `None` if some proper ancestor is not internal
    /// (the position is not reachable).
    pub fn node_at(&self, path: &[bool]) -> Option<Node> {
        // every proper prefix must hold >= 2 keys
        let mut s = self.kv;
        for (d, b) in path.iter().enumerate() {
            if s.len() < 2 {
                return None;
            }
            let split = s.partition_point(|(k, _)| !get_bit(k, d));
            s = if *b { &s[split..] } else { &s[..split] };
        }
        Some(self.node(s, path.len()))
    }

    /// Lookup path for `key`: (depth of the terminal, terminal, siblings in ascending depth order).
    pub fn lookup(&self, key: &Key) -> (usize, Terminal, Vec<Node>) {
        let mut s = self.kv;
        let mut d = 0usize;
        let mut sibs = Vec::new();
        loop {
            match s.len() {
                0 => return (d, Terminal::Terminator, sibs),
                1 => {
                    return (
                        d,
                        Terminal::Leaf {
                            key: s[0].0,
                            vh: s[0].1,
                        },
                        sibs,
                    )
                }
                _ => {
                    let split = s.partition_point(|(k, _)| !get_bit(k, d));
                    let (l, r) = (&s[..split], &s[split..]);
                    if get_bit(key, d) {
                        sibs.push(self.node(l, d + 1));
                        s = r;
                    } else {
                        sibs.push(self.node(r, d + 1));
                        s = l;
                    }
                    d += 1;
                }
            }
        }
    }
}

#[cfg(test)]
mod tests {
    use super::*;
    use nomt_core::hasher::{Blake3Hasher, Sha2Hasher};

    // Oracle self-test (a test of the oracle, not a property check): agreement with build_trie.
    #[test]
    fn matches_build_trie() {
        let mut s = crate::util::SplitMix(7);
        for n in [0usize, 1, 2, 3, 5, 17, 200] {
            let mut kv: Vec<(Key, [u8; 32])> = (0..n).map(|_| (s.key(), s.key())).collect();
            // cluster some
            for i in 0..n / 2 {
                let p = kv[i].0;
                kv[i + n / 2].0[..20].copy_from_slice(&p[..20]);
            }
            kv.sort();
            kv.dedup_by_key(|x| x.0);
            let a = RefTrie::new(HasherKind::Blake3, &kv).root();
            let b = nomt_core::update::build_trie::<Blake3Hasher>(0, kv.clone(), |_| {});
            assert_eq!(a, b);
            let a = RefTrie::new(HasherKind::Sha2, &kv).root();
            let b = nomt_core::update::build_trie::<Sha2Hasher>(0, kv.clone(), |_| {});
            assert_eq!(a, b);
        }
    }
}
