//! I/O simulation on top of nomt's verification hook: event recorder, fault injection, shadow file
//! system (durable + volatile state per file and per directory), and synthesis of process-crash and
//! power-loss images.

use nomt::verif::{Hook, IoOp};
use std::collections::{BTreeMap, BTreeSet, HashMap};
use std::os::unix::fs::FileExt;
use std::path::{Path, PathBuf};
use std::sync::{Arc, Mutex};

pub const PAGE: usize = 4096;

// ------------------------------------------------------------------ content

#[derive(Clone, Default, PartialEq, Eq)]
pub struct Content {
    pub len: u64,
    pub pages: BTreeMap<u64, Arc<Vec<u8>>>, // page number -> 4096 bytes (absent = zeros)
}

impl Content {
    pub fn write(&mut self, off: u64, data: &[u8]) {
        let mut pos = off;
        let mut rest = data;
        while !rest.is_empty() {
            let pn = pos / PAGE as u64;
            let in_page = (pos % PAGE as u64) as usize;
            let n = rest.len().min(PAGE - in_page);
            let page = self
                .pages
                .entry(pn)
                .or_insert_with(|| Arc::new(vec![0u8; PAGE]));
            Arc::make_mut(page)[in_page..in_page + n].copy_from_slice(&rest[..n]);
            pos += n as u64;
            rest = &rest[n..];
        }
        self.len = self.len.max(off + data.len() as u64);
    }
    pub fn set_len(&mut self, len: u64) {
        if len < self.len {
            let first_dead = (len + PAGE as u64 - 1) / PAGE as u64;
            let dead: Vec<u64> = self.pages.range(first_dead..).map(|(k, _)| *k).collect();
            for k in dead {
                self.pages.remove(&k);
            }
            if len % PAGE as u64 != 0 {
                let pn = len / PAGE as u64;
                if let Some(p) = self.pages.get_mut(&pn) {
                    let from = (len % PAGE as u64) as usize;
                    Arc::make_mut(p)[from..].fill(0);
                }
            }
        }
        self.len = len;
    }
    pub fn read_page(&self, pn: u64) -> Option<&[u8]> {
        self.pages.get(&pn).map(|p| &p[..])
    }
    pub fn hash_into(&self, h: &mut u64) {
        let mut mix = |x: u64| {
            *h ^= x;
            *h = h.wrapping_mul(0x100000001b3);
        };
        mix(self.len);
        for (pn, p) in &self.pages {
            if p.iter().all(|b| *b == 0) {
                continue;
            }
            mix(*pn);
            mix(crate::util::fnv(p));
        }
    }
    pub fn normalized_eq(&self, other: &Content) -> bool {
        if self.len != other.len {
            return false;
        }
        let nz = |c: &Content| -> BTreeMap<u64, Arc<Vec<u8>>> {
            c.pages
                .iter()
                .filter(|(_, p)| p.iter().any(|b| *b != 0))
                .map(|(k, v)| (*k, v.clone()))
                .collect()
        };
        nz(self) == nz(other)
    }
}

/// Read a file sparsely (SEEK_DATA / SEEK_HOLE) into a Content.
pub fn read_sparse(path: &Path) -> std::io::Result<Content> {
    use std::os::fd::AsRawFd;
    let f = std::fs::File::open(path)?;
    let len = f.metadata()?.len();
    let mut c = Content {
        len,
        pages: BTreeMap::new(),
    };
    let fd = f.as_raw_fd();
    let mut pos: i64 = 0;
    while (pos as u64) < len {
        let data = unsafe { libc::lseek(fd, pos, libc::SEEK_DATA) };
        if data < 0 {
            break;
        }
        let hole = unsafe { libc::lseek(fd, data, libc::SEEK_HOLE) };
        let hole = if hole < 0 { len as i64 } else { hole };
        let mut p = (data as u64 / PAGE as u64) * PAGE as u64;
        while p < hole as u64 && p < len {
            let mut buf = vec![0u8; PAGE];
            let want = PAGE.min((len - p) as usize);
            f.read_exact_at(&mut buf[..want], p)?;
            if buf.iter().any(|b| *b != 0) {
                c.pages.insert(p / PAGE as u64, Arc::new(buf));
            }
            p += PAGE as u64;
        }
        pos = hole;
    }
    Ok(c)
}

pub type DirImage = BTreeMap<String, Content>;

pub fn read_dir_image(dir: &Path) -> std::io::Result<DirImage> {
    let mut m = DirImage::new();
    for e in std::fs::read_dir(dir)? {
        let e = e?;
        let name = e.file_name().to_string_lossy().to_string();
        if name == ".lock" || !e.file_type()?.is_file() {
            continue;
        }
        m.insert(name, read_sparse(&e.path())?);
    }
    Ok(m)
}

pub fn image_hash(img: &DirImage) -> u64 {
    let mut h = 0xcbf29ce484222325u64;
    for (name, c) in img {
        h ^= crate::util::fnv(name.as_bytes());
        h = h.wrapping_mul(0x100000001b3);
        c.hash_into(&mut h);
    }
    h
}

/// Materialise an image as a fresh directory (sparse files).
pub fn write_image(img: &DirImage, dir: &Path) -> std::io::Result<()> {
    let _ = std::fs::remove_dir_all(dir);
    std::fs::create_dir_all(dir)?;
    for (name, c) in img {
        let f = std::fs::File::create(dir.join(name))?;
        f.set_len(c.len)?;
        for (pn, p) in &c.pages {
            let off = pn * PAGE as u64;
            if off >= c.len {
                continue;
            }
            let n = PAGE.min((c.len - off) as usize);
            if p[..n].iter().any(|b| *b != 0) {
                f.write_all_at(&p[..n], off)?;
            }
        }
    }
    Ok(())
}

// ------------------------------------------------------------------ events

#[derive(Clone, Debug)]
pub enum Kind {
    Write { off: u64, data: Arc<Vec<u8>> },
    Append { data: Arc<Vec<u8>> },
    SetLen { len: u64 },
    Fsync,
    FsyncDir,
    Create,
    Unlink,
}

impl Kind {
    pub fn name(&self) -> &'static str {
        match self {
            Kind::Write { .. } => "write",
            Kind::Append { .. } => "append",
            Kind::SetLen { .. } => "setlen",
            Kind::Fsync => "fsync",
            Kind::FsyncDir => "fsyncdir",
            Kind::Create => "create",
            Kind::Unlink => "unlink",
        }
    }
}

#[derive(Clone, Debug)]
pub enum Ev {
    Begin { id: u64, file: String, kind: Kind },
    End { id: u64, ok: bool },
}

pub fn file_class(name: &str) -> &'static str {
    match name {
        "meta" => "meta",
        "ln" => "ln",
        "bbn" => "bbn",
        "ht" => "ht",
        "wal" => "wal",
        "" => "dir",
        n if n.starts_with("rollback") => "rollback",
        _ => "other",
    }
}

#[derive(Clone, Debug)]
pub struct FailPlan {
    /// Fail the k-th (0-based) mutating operation in the watched directory ...
    pub k: usize,
    /// ... and every later one too.
    pub persistent: bool,
    pub errno: i32,
    /// If set, only operations on files of this class (see [`file_class`]) are counted and failed.
    pub class: Option<&'static str>,
}

#[derive(Default)]
struct RecInner {
    watch: Option<PathBuf>,
    events: Vec<Ev>,
    next_id: u64,
    ops_seen: usize,
    fail: Option<FailPlan>,
    fired: Vec<(usize, String, &'static str)>,
    yield_seed: u64,
    yield_on: bool,
    /// (site, microseconds): a deterministic delay at one yield site (independent of `yield_on`)
    site_delay: Option<(u32, u64)>,
    /// (file class, microseconds): the first pool / direct write to a file of that class is held back that long
    /// inside the hook (its Begin event is recorded first), simulating one slow in-flight write
    hold: Option<(&'static str, u64)>,
    hold_used: bool,
    /// which write to that class is held (0 = the first)
    hold_nth: usize,
    hold_seen: usize,
    /// (file class, microseconds): the next unlink of a file of that class is held back that long inside the hook
    /// (one-shot), simulating a background clean-up task that is still at work
    hold_unlink: Option<(&'static str, u64)>,
}

/// Number of ENOSPC errors the hook has injected in this process. A case that reports "No space left on device"
/// although none was injected while it ran hit the real file system's limit: infrastructure, not a violation.
pub static INJECTED_ENOSPC: std::sync::atomic::AtomicU64 = std::sync::atomic::AtomicU64::new(0);

/// The process-global hook implementation.
pub struct Recorder {
    inner: Mutex<RecInner>,
}

const PASS: u64 = u64::MAX - 1;

impl Recorder {
    pub fn install() -> Arc<Recorder> {
        static GLOBAL: std::sync::OnceLock<Arc<Recorder>> = std::sync::OnceLock::new();
        GLOBAL
            .get_or_init(|| {
                let r = Arc::new(Recorder {
                    inner: Mutex::new(RecInner::default()),
                });
                nomt::verif::set_hook(Some(r.clone() as Arc<dyn Hook>));
                r
            })
            .clone()
    }
    fn lock(&self) -> std::sync::MutexGuard<'_, RecInner> {
        self.inner.lock().unwrap_or_else(|e| e.into_inner())
    }
    /// Start recording events of `dir` (canonical path). Clears previous events.
    pub fn watch(&self, dir: &Path, fail: Option<FailPlan>) {
        let mut g = self.lock();
        g.watch = Some(dir.canonicalize().unwrap_or_else(|_| dir.to_path_buf()));
        g.events.clear();
        g.ops_seen = 0;
        g.fail = fail;
        g.fired.clear();
    }
    pub fn unwatch(&self) {
        let mut g = self.lock();
        g.watch = None;
        g.fail = None;
    }
    /// Take the events recorded so far (recording continues).
    pub fn take(&self) -> Vec<Ev> {
        std::mem::take(&mut self.lock().events)
    }
    pub fn ops_seen(&self) -> usize {
        self.lock().ops_seen
    }
    pub fn fired(&self) -> Vec<(usize, String, &'static str)> {
        self.lock().fired.clone()
    }
    /// Hold back the first write to a file of class `class` for `micros` (None = off).
    pub fn set_hold(&self, h: Option<(&'static str, u64)>) {
        self.set_hold_nth(h, 0);
    }
    /// Hold back the `nth` (0-based) write to a file of class `class`.
    pub fn set_hold_nth(&self, h: Option<(&'static str, u64)>, nth: usize) {
        let mut g = self.lock();
        g.hold = h;
        g.hold_used = false;
        g.hold_nth = nth;
        g.hold_seen = 0;
    }
    /// Hold back the next unlink of a file of class `class` for `micros` (one-shot; None = off).
    pub fn set_hold_unlink(&self, h: Option<(&'static str, u64)>) {
        self.lock().hold_unlink = h;
    }
    /// Number of recorded MUTATING operations (not fsyncs) that have begun but not ended (since the last `watch` / `take`).
    pub fn in_flight_events(&self) -> usize {
        let g = self.lock();
        let mut open: BTreeSet<u64> = BTreeSet::new();
        for e in &g.events {
            match e {
                // fsyncs write nothing: a late fsync of the old handle is not a writer
                Ev::Begin { kind: Kind::Fsync | Kind::FsyncDir, .. } => {}
                Ev::Begin { id, .. } => {
                    open.insert(*id);
                }
                Ev::End { id, .. } => {
                    open.remove(id);
                }
            }
        }
        open.len()
    }
    /// Delay every passage through yield site `site` by `micros` (None = off).
    pub fn set_site_delay(&self, d: Option<(u32, u64)>) {
        self.lock().site_delay = d;
    }
    pub fn set_yield(&self, on: bool, seed: u64) {
        let mut g = self.lock();
        g.yield_on = on;
        g.yield_seed = seed;
    }
}

fn fd_path(fd: i32) -> Option<PathBuf> {
    std::fs::read_link(format!("/proc/self/fd/{fd}")).ok()
}

impl Hook for Recorder {
    fn before(&self, op: &IoOp<'_>) -> std::io::Result<u64> {
        let mut g = self.lock();
        let Some(watch) = g.watch.clone() else {
            return Ok(PASS);
        };
        let (path, kind): (PathBuf, Kind) = match op {
            IoOp::Write { fd, offset, data } => match fd_path(*fd) {
                Some(p) => (
                    p,
                    Kind::Write {
                        off: *offset,
                        data: Arc::new(data.to_vec()),
                    },
                ),
                None => return Ok(PASS),
            },
            IoOp::Append { fd, data } => match fd_path(*fd) {
                Some(p) => (
                    p,
                    Kind::Append {
                        data: Arc::new(data.to_vec()),
                    },
                ),
                None => return Ok(PASS),
            },
            IoOp::SetLen { fd, len } => match fd_path(*fd) {
                Some(p) => (p, Kind::SetLen { len: *len }),
                None => return Ok(PASS),
            },
            IoOp::Fsync { fd } => match fd_path(*fd) {
                Some(p) => {
                    let k = if p == watch { Kind::FsyncDir } else { Kind::Fsync };
                    (p, k)
                }
                None => return Ok(PASS),
            },
            IoOp::Create { path } => (
                path.canonicalize().unwrap_or_else(|_| {
                    path.parent()
                        .and_then(|d| d.canonicalize().ok())
                        .map(|d| d.join(path.file_name().unwrap()))
                        .unwrap_or_else(|| path.to_path_buf())
                }),
                Kind::Create,
            ),
            IoOp::Unlink { path } => (
                path.canonicalize().unwrap_or_else(|_| path.to_path_buf()),
                Kind::Unlink,
            ),
        };
        let file = if path == watch {
            String::new()
        } else if path.parent() == Some(watch.as_path()) {
            let n = path.file_name().unwrap().to_string_lossy().to_string();
            n.trim_end_matches(" (deleted)").to_string()
        } else {
            return Ok(PASS);
        };
        let counted = g.fail.as_ref().map_or(true, |fp| fp.class.map_or(true, |c| c == file_class(&file)));
        let idx = g.ops_seen;
        if counted {
            g.ops_seen += 1;
        }
        if let Some(fp) = &g.fail {
            if counted && (idx == fp.k || (fp.persistent && idx > fp.k)) {
                let errno = fp.errno;
                let kn = kind.name();
                g.fired.push((idx, file.clone(), kn));
                if errno == libc::ENOSPC {
                    INJECTED_ENOSPC.fetch_add(1, std::sync::atomic::Ordering::SeqCst);
                }
                return Err(std::io::Error::from_raw_os_error(errno));
            }
        }
        let id = g.next_id;
        g.next_id += 1;
        let hold_us = match (&kind, g.hold) {
            (Kind::Write { .. }, Some((class, us))) if !g.hold_used && file_class(&file) == class => {
                g.hold_seen += 1;
                if g.hold_seen > g.hold_nth {
                    g.hold_used = true;
                    Some(us)
                } else {
                    None
                }
            }
            (Kind::Unlink, _) => match g.hold_unlink {
                Some((class, us)) if file_class(&file) == class => {
                    g.hold_unlink = None;
                    Some(us)
                }
                _ => None,
            },
            _ => None,
        };
        g.events.push(Ev::Begin { id, file, kind });
        drop(g);
        if let Some(us) = hold_us {
            std::thread::sleep(std::time::Duration::from_micros(us));
        }
        Ok(id)
    }
    fn after(&self, token: u64, ok: bool) {
        if token == PASS {
            return;
        }
        let mut g = self.lock();
        if g.watch.is_some() {
            g.events.push(Ev::End { id: token, ok });
        }
    }
    fn yield_point(&self, site: u32) {
        let (on, x) = {
            let mut g = self.lock();
            if let Some((s, us)) = g.site_delay {
                if s == site {
                    drop(g);
                    std::thread::sleep(std::time::Duration::from_micros(us));
                    return;
                }
            }
            if !g.yield_on {
                return;
            }
            g.yield_seed = g
                .yield_seed
                .wrapping_mul(6364136223846793005)
                .wrapping_add(1442695040888963407 ^ site as u64);
            (true, g.yield_seed >> 33)
        };
        if on {
            match x % 10 {
                0 => std::thread::sleep(std::time::Duration::from_micros(50 + (x >> 4) % 1500)),
                1 | 2 => std::thread::yield_now(),
                _ => {}
            }
        }
    }
}

// ------------------------------------------------------------------ shadow file system

#[derive(Clone, Debug)]
pub struct POp {
    pub id: u64,
    pub kind: Kind,
    /// resolved offset for writes/appends
    pub off: u64,
    pub completed: bool,
    /// file size (volatile view) when the op was issued
    pub size_at_issue: u64,
}

#[derive(Clone, Default)]
pub struct ShadowFile {
    pub durable: Content,
    pub pending: Vec<POp>,
    /// volatile length (all pending applied)
    pub vlen: u64,
}

#[derive(Clone, Debug)]
pub struct DirOp {
    pub create: bool,
    pub name: String,
    pub inode: u64,
    pub id: u64,
    pub completed: bool,
}

#[derive(Clone, Default)]
pub struct Shadow {
    /// inode -> file state
    pub inodes: BTreeMap<u64, ShadowFile>,
    /// current (volatile) namespace
    pub names: BTreeMap<String, u64>,
    /// durable namespace
    pub dir_durable: BTreeMap<String, u64>,
    pub dir_pending: Vec<DirOp>,
    next_inode: u64,
    /// fsync id -> (inode or None for the directory, ids of ops covered)
    fsyncs: HashMap<u64, (Option<u64>, Vec<u64>)>,
    /// id of a file op -> inode; id of a dir op -> None
    id_target: HashMap<u64, Option<u64>>,
    /// POSIX-strict directory model: a file's creation becomes durable only through an fsync of the
    /// DIRECTORY issued after it (default, lenient: also through an fsync of the file itself).
    pub strict_dir: bool,
}

impl Shadow {
    /// Everything in `img` is durable.
    pub fn from_image(img: &DirImage) -> Self {
        let mut s = Shadow::default();
        for (n, c) in img {
            let ino = s.next_inode;
            s.next_inode += 1;
            s.inodes.insert(
                ino,
                ShadowFile {
                    durable: c.clone(),
                    pending: Vec::new(),
                    vlen: c.len,
                },
            );
            s.names.insert(n.clone(), ino);
            s.dir_durable.insert(n.clone(), ino);
        }
        s
    }

    /// Files (by current name) with their state.
    pub fn files(&self) -> impl Iterator<Item = (&String, &ShadowFile)> {
        self.names.iter().filter_map(|(n, i)| self.inodes.get(i).map(|f| (n, f)))
    }

    fn gc(&mut self) {
        let mut live: BTreeSet<u64> = self.names.values().cloned().collect();
        live.extend(self.dir_durable.values().cloned());
        live.extend(self.dir_pending.iter().map(|d| d.inode));
        self.inodes.retain(|i, _| live.contains(i));
    }

    pub fn apply(&mut self, ev: &Ev) {
        match ev {
            Ev::Begin { id, file, kind } => match kind {
                Kind::Write { .. } | Kind::Append { .. } | Kind::SetLen { .. } => {
                    let ino = match self.names.get(file) {
                        Some(i) => *i,
                        None => {
                            // a file we have never seen created (should not happen): adopt it
                            let i = self.next_inode;
                            self.next_inode += 1;
                            self.names.insert(file.clone(), i);
                            self.dir_durable.insert(file.clone(), i);
                            i
                        }
                    };
                    let f = self.inodes.entry(ino).or_default();
                    let (off, new_len) = match kind {
                        Kind::Write { off, data } => (*off, f.vlen.max(off + data.len() as u64)),
                        Kind::Append { data } => (f.vlen, f.vlen + data.len() as u64),
                        Kind::SetLen { len } => (0, *len),
                        _ => unreachable!(),
                    };
                    f.pending.push(POp {
                        id: *id,
                        kind: kind.clone(),
                        off,
                        completed: false,
                        size_at_issue: f.vlen,
                    });
                    f.vlen = new_len;
                    self.id_target.insert(*id, Some(ino));
                }
                Kind::Fsync => {
                    let ino = self.names.get(file).cloned();
                    let covered = ino
                        .and_then(|i| self.inodes.get(&i))
                        .map(|f| f.pending.iter().filter(|p| p.completed).map(|p| p.id).collect())
                        .unwrap_or_default();
                    self.fsyncs.insert(*id, (ino, covered));
                }
                Kind::FsyncDir => {
                    let covered = self.dir_pending.iter().filter(|d| d.completed).map(|d| d.id).collect();
                    self.fsyncs.insert(*id, (None, covered));
                }
                Kind::Create => {
                    let ino = self.next_inode;
                    self.next_inode += 1;
                    self.inodes.insert(ino, ShadowFile::default());
                    self.names.insert(file.clone(), ino);
                    self.dir_pending.push(DirOp {
                        create: true,
                        name: file.clone(),
                        inode: ino,
                        id: *id,
                        completed: false,
                    });
                    self.id_target.insert(*id, None);
                }
                Kind::Unlink => {
                    if let Some(ino) = self.names.remove(file) {
                        self.dir_pending.push(DirOp {
                            create: false,
                            name: file.clone(),
                            inode: ino,
                            id: *id,
                            completed: false,
                        });
                    }
                    self.id_target.insert(*id, None);
                }
            },
            Ev::End { id, ok } => {
                if let Some((target, covered)) = self.fsyncs.remove(id) {
                    if !*ok {
                        return;
                    }
                    match target {
                        None => {
                            // directory fsync: covered dir ops become durable, in order
                            let mut rest = Vec::new();
                            for d in std::mem::take(&mut self.dir_pending) {
                                if covered.contains(&d.id) {
                                    if d.create {
                                        self.dir_durable.insert(d.name.clone(), d.inode);
                                    } else if self.dir_durable.get(&d.name) == Some(&d.inode) {
                                        self.dir_durable.remove(&d.name);
                                    }
                                } else {
                                    rest.push(d);
                                }
                            }
                            self.dir_pending = rest;
                        }
                        Some(ino) => {
                            if let Some(f) = self.inodes.get_mut(&ino) {
                                let mut rest = Vec::new();
                                for p in std::mem::take(&mut f.pending) {
                                    if covered.contains(&p.id) {
                                        apply_op(&mut f.durable, &p, None);
                                    } else {
                                        rest.push(p);
                                    }
                                }
                                f.pending = rest;
                            }
                            // lenient model: an fsynced file's creation is durable - and, directory operations being
                            // ordered (journalled metadata; images only ever keep a PREFIX of them), so is every
                            // directory operation issued before that creation
                            if !self.strict_dir {
                                if let Some(pos) = self.dir_pending.iter().position(|d| d.create && d.inode == ino) {
                                    let rest = self.dir_pending.split_off(pos + 1);
                                    for d in std::mem::replace(&mut self.dir_pending, rest) {
                                        if d.create {
                                            self.dir_durable.insert(d.name.clone(), d.inode);
                                        } else if self.dir_durable.get(&d.name) == Some(&d.inode) {
                                            self.dir_durable.remove(&d.name);
                                        }
                                    }
                                }
                            }
                        }
                    }
                    self.gc();
                    return;
                }
                match self.id_target.remove(id) {
                    Some(None) => {
                        if *ok {
                            for d in self.dir_pending.iter_mut() {
                                if d.id == *id {
                                    d.completed = true;
                                }
                            }
                        } else {
                            // a failed create/unlink did not happen
                            if let Some(pos) = self.dir_pending.iter().position(|d| d.id == *id) {
                                let d = self.dir_pending.remove(pos);
                                if d.create {
                                    self.names.remove(&d.name);
                                } else {
                                    self.names.insert(d.name, d.inode);
                                }
                            }
                        }
                    }
                    Some(Some(ino)) => {
                        if let Some(f) = self.inodes.get_mut(&ino) {
                            if *ok {
                                for p in f.pending.iter_mut() {
                                    if p.id == *id {
                                        p.completed = true;
                                    }
                                }
                            } else {
                                f.pending.retain(|p| p.id != *id);
                            }
                        }
                    }
                    None => {}
                }
            }
        }
    }

    /// Is there any operation in flight (begun, not ended)?
    pub fn in_flight(&self) -> usize {
        self.inodes
            .values()
            .map(|f| f.pending.iter().filter(|p| !p.completed).count())
            .sum::<usize>()
            + self.dir_pending.iter().filter(|d| !d.completed).count()
    }

    pub fn volatile_ops(&self) -> usize {
        self.inodes.values().map(|f| f.pending.len()).sum::<usize>() + self.dir_pending.len()
    }

    /// Image under a policy.
    pub fn image(&self, pol: &mut dyn Policy) -> DirImage {
        // directory entries: order-preserving prefix
        let keep_dir = pol.dir_prefix(&self.dir_pending);
        let mut present: BTreeMap<String, u64> = self.dir_durable.clone();
        for d in self.dir_pending.iter().take(keep_dir) {
            if d.create {
                present.insert(d.name.clone(), d.inode);
            } else if present.get(&d.name) == Some(&d.inode) {
                present.remove(&d.name);
            }
        }
        let mut img = DirImage::new();
        for (name, ino) in present {
            let Some(f) = self.inodes.get(&ino) else {
                img.insert(name, Content::default());
                continue;
            };
            let mut c = f.durable.clone();
            let decisions = pol.file_ops(&name, &f.pending);
            for (p, d) in f.pending.iter().zip(decisions.iter()) {
                match d {
                    Keep::Drop => {}
                    Keep::All => {
                        // in-place writes need their region to exist
                        if let Kind::Write { off, data } = &p.kind {
                            let inplace = off + data.len() as u64 <= p.size_at_issue;
                            if inplace && off + data.len() as u64 > c.len {
                                continue;
                            }
                        }
                        apply_op(&mut c, p, None);
                    }
                    Keep::Prefix(n) => apply_op(&mut c, p, Some(*n)),
                }
            }
            img.insert(name, c);
        }
        img
    }
}

fn apply_op(c: &mut Content, p: &POp, prefix: Option<usize>) {
    match &p.kind {
        Kind::Write { data, .. } | Kind::Append { data } => {
            let n = prefix.unwrap_or(data.len()).min(data.len());
            // an append lands at the end of whatever the file currently is
            let off = if matches!(p.kind, Kind::Append { .. }) { c.len } else { p.off };
            if n > 0 {
                c.write(off, &data[..n]);
            }
        }
        Kind::SetLen { len } => c.set_len(*len),
        _ => {}
    }
}

#[derive(Clone, Copy, Debug, PartialEq, Eq)]
pub enum Keep {
    Drop,
    All,
    /// keep only the first n bytes (page aligned) of an extending write / append
    Prefix(usize),
}

pub trait Policy {
    fn dir_prefix(&mut self, ops: &[DirOp]) -> usize;
    fn file_ops(&mut self, file: &str, ops: &[POp]) -> Vec<Keep>;
}

fn is_meta_op(p: &POp) -> bool {
    match &p.kind {
        Kind::SetLen { .. } | Kind::Append { .. } => true,
        Kind::Write { off, data } => off + data.len() as u64 > p.size_at_issue,
        _ => false,
    }
}

/// Process crash: all completed operations are applied; in-flight ones by `inflight` choice.
pub struct CrashPolicy {
    pub mode: u8, // 0 none, 1 all, 2 random
    pub rng: crate::util::SplitMix,
}
impl Policy for CrashPolicy {
    fn dir_prefix(&mut self, ops: &[DirOp]) -> usize {
        // completed ones are applied; stop at the first in-flight one unless chosen
        let mut n = 0;
        for d in ops {
            let done = d.completed;
            let take = done
                || match self.mode {
                    0 => false,
                    1 => true,
                    _ => self.rng.below(2) == 0,
                };
            if !take {
                break;
            }
            n += 1;
        }
        n
    }
    fn file_ops(&mut self, _file: &str, ops: &[POp]) -> Vec<Keep> {
        ops.iter()
            .map(|p| {
                if p.completed {
                    Keep::All
                } else {
                    match self.mode {
                        0 => Keep::Drop,
                        1 => Keep::All,
                        _ => match (&p.kind, self.rng.below(3)) {
                            (_, 0) => Keep::Drop,
                            (Kind::Write { data, .. }, 1) | (Kind::Append { data }, 1) if data.len() > PAGE => {
                                let pages = data.len() / PAGE;
                                Keep::Prefix(self.rng.below(pages as u64 + 1) as usize * PAGE)
                            }
                            _ => Keep::All,
                        },
                    }
                }
            })
            .collect()
    }
}

/// Power loss: per file, an order-preserving prefix of size-affecting operations (with a page-aligned
/// prefix of the one at the cut) and an arbitrary subset of in-place writes; per directory a prefix.
pub struct PowerPolicy {
    /// 0 = drop all volatile; 1 = keep all; 2 = keep all but class `class`; 3 = keep only class `class`; 4 = random
    pub mode: u8,
    pub class: &'static str,
    pub rng: crate::util::SplitMix,
}
impl PowerPolicy {
    fn keep_class(&self, file: &str) -> Option<bool> {
        let c = file_class(file);
        match self.mode {
            0 => Some(false),
            1 => Some(true),
            2 => Some(c != self.class),
            3 => Some(c == self.class),
            _ => None,
        }
    }
}
impl Policy for PowerPolicy {
    fn dir_prefix(&mut self, ops: &[DirOp]) -> usize {
        match self.keep_class("") {
            Some(true) => ops.len(),
            Some(false) => 0,
            None => self.rng.below(ops.len() as u64 + 1) as usize,
        }
    }
    fn file_ops(&mut self, file: &str, ops: &[POp]) -> Vec<Keep> {
        match self.keep_class(file) {
            Some(true) => return vec![Keep::All; ops.len()],
            Some(false) => return vec![Keep::Drop; ops.len()],
            None => {}
        }
        let metas: Vec<usize> = ops.iter().enumerate().filter(|(_, p)| is_meta_op(p)).map(|(i, _)| i).collect();
        let k = self.rng.below(metas.len() as u64 + 1) as usize; // number of meta ops fully kept
        let mut out = vec![Keep::Drop; ops.len()];
        for (j, &i) in metas.iter().enumerate() {
            if j < k {
                out[i] = Keep::All;
            } else if j == k {
                // the op at the cut: page-aligned prefix of an extending write / append
                if let Kind::Write { data, .. } | Kind::Append { data } = &ops[i].kind {
                    let pages = data.len() / PAGE;
                    if pages > 0 && self.rng.below(2) == 0 {
                        out[i] = Keep::Prefix(self.rng.below(pages as u64 + 1) as usize * PAGE);
                    }
                }
            }
        }
        let cut = metas.get(k).copied().unwrap_or(ops.len());
        let style = self.rng.below(4);
        for (i, p) in ops.iter().enumerate() {
            if is_meta_op(p) {
                continue;
            }
            // in-place write: any subset, but never one issued after the dropped part of the
            // size-affecting prefix (its region may not exist)
            let allowed = i < cut || matches!(p.kind, Kind::Write { .. });
            if !allowed {
                continue;
            }
            let keep = match style {
                0 => true,
                1 => false,
                _ => self.rng.below(2) == 0,
            };
            if keep {
                out[i] = Keep::All;
            }
        }
        out
    }
}
