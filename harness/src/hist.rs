//! Histories (generated as `Vec<Step>`), and the interpreter that runs one against a real store and
//! the model in lock-step with a configurable set of observers.

use crate::driver::{overlay_of, Cfg, CommitOpts, Db, Fail, Fs, HK};
use crate::gen::{self, BatchSpec, Budget, Bulk};
use crate::model::{root_of, MOp, Map, Model};
use crate::observe;
use crate::reftrie::Node;
use crate::util::{hx8, pick, shared_bits, Key, SplitMix};
use nomt::Overlay;
use proptest::prelude::*;
use serde::{Deserialize, Serialize};
use std::collections::BTreeMap;
use std::path::{Path, PathBuf};

#[derive(Clone, Debug, Serialize, Deserialize, PartialEq, Eq)]
pub enum Via {
    Session,
    /// Split the batch into n overlays chained on each other, committed in order.
    Overlays(u8),
}

#[derive(Clone, Debug, Serialize, Deserialize, PartialEq, Eq)]
pub struct CommitSpec {
    pub batch: BatchSpec,
    pub via: Via,
    pub witness: bool,
    pub warm_mask: u64,
    pub preserve_mask: u64,
    pub nonblocking: bool,
}

#[derive(Clone, Debug, Serialize, Deserialize, PartialEq, Eq)]
pub enum Step {
    Commit(CommitSpec),
    Reopen(Cfg),
    Rollback(u8),
}

#[derive(Clone, Debug, Serialize, Deserialize, PartialEq, Eq)]
pub struct History {
    pub salt: u64,
    pub cfg: Cfg,
    pub steps: Vec<Step>,
}

impl History {
    pub fn brief(&self) -> String {
        let mut s = format!("cfg[{}] ", self.cfg.brief());
        for st in &self.steps {
            match st {
                Step::Commit(c) => {
                    let b = match &c.batch.bulk {
                        None => String::new(),
                        Some(gen::Bulk::Insert { n, plen, vlo, vhi, .. }) => {
                            format!("+bulk_ins{n}@p{plen}v{vlo}-{vhi}")
                        }
                        Some(gen::Bulk::Delete { permille, .. }) => format!("+bulk_del{permille}‰"),
                        Some(gen::Bulk::Rewrite { permille, vlo, vhi, .. }) => {
                            format!("+bulk_rw{permille}‰v{vlo}-{vhi}")
                        }
                    };
                    s += &format!(
                        "C({}e{}{}{}{}) ",
                        c.batch.entries.len(),
                        b,
                        match c.via {
                            Via::Session => String::new(),
                            Via::Overlays(n) => format!(",ov{n}"),
                        },
                        if c.witness { ",w" } else { "" },
                        if c.nonblocking { ",nb" } else { "" }
                    );
                }
                Step::Reopen(c) => s += &format!("REOPEN(cc={},pc={}) ", c.commit_concurrency, c.page_cache_mib),
                Step::Rollback(n) => s += &format!("RB({n}) "),
            }
        }
        s
    }
}

// ---------------------------------------------------------------- strategies

pub struct HistParams {
    pub max_steps: usize,
    pub max_entries: usize,
    pub bulk_n: u16,
    pub big_values: bool,
    /// 0 = never, 1 = 60% of cases, 2 = always
    pub rollback: u8,
    pub reopen_weight: u32,
    pub overlay_weight: u32,
    pub witness_weight: f64,
    pub ext4_weight: u32,
    pub rollback_weight: u32,
}

pub fn commit_strategy(p: &HistParams) -> impl Strategy<Value = CommitSpec> {
    let vlen = if p.big_values {
        gen::vlen_strategy().boxed()
    } else {
        gen::vlen_small().boxed()
    };
    (
        gen::batch_strategy(p.max_entries, p.bulk_n, vlen),
        prop_oneof![
            (100 - p.overlay_weight) => Just(Via::Session),
            p.overlay_weight => (1u8..=3).prop_map(Via::Overlays),
        ],
        prop::bool::weighted(p.witness_weight),
        prop_oneof![Just(0u64), any::<u64>(), Just(u64::MAX)],
        prop_oneof![Just(0u64), any::<u64>(), Just(u64::MAX)],
        prop::bool::weighted(0.2),
    )
        .prop_map(
            |(batch, via, witness, warm_mask, preserve_mask, nonblocking)| CommitSpec {
                batch,
                via,
                witness,
                warm_mask,
                preserve_mask,
                nonblocking,
            },
        )
}

pub fn history_strategy(p: HistParams) -> impl Strategy<Value = History> {
    let rb = match p.rollback {
        0 => Just(false).boxed(),
        1 => prop::bool::weighted(0.6).boxed(),
        _ => Just(true).boxed(),
    };
    let step = prop_oneof![
        (100 - p.reopen_weight) => commit_strategy(&p).prop_map(Step::Commit),
        p.reopen_weight => gen::cfg_strategy(Just(false).boxed(), 0).prop_map(Step::Reopen),
        (if p.rollback > 0 { p.rollback_weight } else { 0 }) => prop_oneof![4 => 0u8..=3, 2 => 0u8..=7].prop_map(Step::Rollback),
    ];
    (
        any::<u64>(),
        gen::cfg_strategy(rb, p.ext4_weight),
        prop::collection::vec(step, 1..=p.max_steps),
    )
        .prop_map(|(salt, cfg, steps)| History { salt, cfg, steps })
}

/// Forced shape "bottom-level branch node filled to the byte": one bulk insert of values of 1331..1332 bytes
/// (exactly two fit a leaf) sized so that the single branch node addressing the leaves is 90..99% full (its
/// capacity depends on the separator length, i.e. on the shared key prefix `plen`: 6 bytes + ~(plen + 11.5) bits per
/// leaf), then 50..70 commits inserting mostly ONE more such value each (an insert into a leaf holding two splits
/// it, i.e. adds one separator of varying bit length and one pointer to the node), so that the node's size walks
/// through its capacity of 4086 bytes in steps of 7..10 bytes and a fraction of the cases builds a node that is
/// exactly full / exactly one byte too large before it splits. Half of the cases go on with a delete of a tenth and
/// more inserts.
pub fn bbn_fill_strategy(ext4_weight: u32) -> impl Strategy<Value = History> {
    (
        any::<u64>(),
        gen::cfg_strategy(Just(false).boxed(), ext4_weight),
        900u32..=990,
        prop::collection::vec((any::<u64>(), prop_oneof![3 => Just(1u16), 1 => 2u16..=3]), 50..=70),
        0u8..4,
        prop::sample::select(vec![0u8, 0, 3, 9, 17]),
        any::<bool>(),
    )
        .prop_map(|(salt, cfg, permille, adds, cluster, plen, shrink)| {
            let commit = |bulk: Bulk| {
                Step::Commit(CommitSpec {
                    batch: BatchSpec { entries: Vec::new(), bulk: Some(bulk) },
                    via: Via::Session,
                    witness: false,
                    warm_mask: 0,
                    preserve_mask: 0,
                    nonblocking: false,
                })
            };
            // leaves one branch node can address: 4086 / (6 + (plen + 11.5) / 8)
            let cap_leaves = 4086.0 / (6.0 + (plen as f64 + 11.5) / 8.0);
            let n0 = (2.0 * cap_leaves * permille as f64 / 1000.0) as u16;
            let ins = |seed: u64, n: u16| Bulk::Insert { seed, n, cluster, plen, vlo: 1331, vhi: 1332 };
            let mut steps = vec![commit(ins(salt ^ 0x5eed, n0))];
            for (seed, n) in &adds {
                steps.push(commit(ins(*seed, *n)));
            }
            if shrink {
                steps.push(commit(Bulk::Delete { seed: salt ^ 0xde1, permille: 100 }));
                for (seed, n) in adds.iter().take(8) {
                    steps.push(commit(ins(seed ^ 0xabcd, *n + 6)));
                }
            }
            History { salt, cfg, steps }
        })
}

pub fn is_bbn_fill(h: &History) -> bool {
    h.steps.len() >= 51
        && matches!(&h.steps[0], Step::Commit(c) if c.batch.entries.is_empty() && matches!(c.batch.bulk, Some(Bulk::Insert { n, vlo: 1331, vhi: 1332, .. }) if n >= 600))
}

// ---------------------------------------------------------------- scratch dirs

pub struct Scratch {
    pub shm_root: PathBuf,
    pub tmp_root: PathBuf,
    counter: std::cell::Cell<u64>,
}

impl Scratch {
    pub fn new(tag: &str) -> Self {
        let pid = std::process::id();
        let shm_root = PathBuf::from(format!("/dev/shm/nomt-verif.{pid}.{tag}"));
        let tmp_root = PathBuf::from(format!("/tmp/nomt-verif.{pid}.{tag}"));
        let _ = std::fs::remove_dir_all(&shm_root);
        let _ = std::fs::remove_dir_all(&tmp_root);
        std::fs::create_dir_all(&shm_root).expect("scratch");
        Scratch {
            shm_root,
            tmp_root,
            counter: std::cell::Cell::new(0),
        }
    }
    pub fn dir(&self, fs: Fs) -> PathBuf {
        let n = self.counter.get();
        self.counter.set(n + 1);
        let root = match fs {
            Fs::Tmpfs => &self.shm_root,
            Fs::Ext4 => {
                std::fs::create_dir_all(&self.tmp_root).expect("scratch");
                &self.tmp_root
            }
        };
        root.join(format!("db{n}"))
    }
}

impl Scratch {
    /// Remove everything a case left behind (error paths and shrinking do not clean up after
    /// themselves; tmpfs is RAM, so leaks must not accumulate over a shard).
    pub fn sweep(&self) {
        for root in [&self.shm_root, &self.tmp_root] {
            if let Ok(rd) = std::fs::read_dir(root) {
                for e in rd.filter_map(|e| e.ok()) {
                    let p = e.path();
                    if p.is_dir() {
                        let _ = std::fs::remove_dir_all(&p);
                    } else {
                        let _ = std::fs::remove_file(&p);
                    }
                }
            }
        }
    }
}

/// Remove scratch roots left by harness processes that no longer exist (killed workers).
pub fn sweep_stale_scratch() {
    for base in ["/dev/shm", "/tmp"] {
        let Ok(rd) = std::fs::read_dir(base) else { continue };
        for e in rd.filter_map(|e| e.ok()) {
            let name = e.file_name().to_string_lossy().to_string();
            let rest = if let Some(r) = name.strip_prefix("nomt-verif-out.") {
                r
            } else if let Some(r) = name.strip_prefix("nomt-verif.") {
                r
            } else {
                continue;
            };
            let Some(pid) = rest.split('.').next().and_then(|p| p.parse::<u32>().ok()) else { continue };
            if !Path::new(&format!("/proc/{pid}")).exists() {
                let _ = std::fs::remove_dir_all(e.path());
            }
        }
    }
}

impl Drop for Scratch {
    fn drop(&mut self) {
        let _ = std::fs::remove_dir_all(&self.shm_root);
        let _ = std::fs::remove_dir_all(&self.tmp_root);
    }
}

pub fn rm(dir: &Path) {
    let _ = std::fs::remove_dir_all(dir);
}

// ---------------------------------------------------------------- interpreter

#[derive(Clone, Default)]
pub struct Obs {
    pub values: bool,
    pub root: bool,
    pub proofs: usize,
    pub proof_shape: bool,
    pub witness: bool,
    /// C16: decode the on-disk image after every step and compare with the model
    pub decode: bool,
    /// C19: exact allocation partition + hash-table utilisation
    pub alloc: bool,
    pub util: bool,
}

#[derive(Default, Clone, Debug)]
pub struct CaseInfo {
    pub labels: BTreeMap<String, u64>,
    pub nontrivial: bool,
    pub discarded: Option<String>,
}

impl CaseInfo {
    pub fn bump(&mut self, k: &str) {
        *self.labels.entry(k.to_string()).or_insert(0) += 1;
    }
    pub fn add(&mut self, k: &str, n: u64) {
        *self.labels.entry(k.to_string()).or_insert(0) += n;
    }
    pub fn max(&mut self, k: &str, n: u64) {
        let e = self.labels.entry(k.to_string()).or_insert(0);
        *e = (*e).max(n);
    }
}

#[derive(Debug, Clone)]
pub struct Violation {
    pub step: usize,
    pub msg: String,
}

pub type Verdict = Result<CaseInfo, Violation>;

fn viol(step: usize, msg: impl Into<String>) -> Violation {
    Violation {
        step,
        msg: msg.into(),
    }
}

pub fn select_mask(batch: &[(Key, MOp)], mask: u64, writes_only: bool) -> Vec<Key> {
    batch
        .iter()
        .enumerate()
        .filter(|(i, (_, op))| (mask >> (i % 64)) & 1 == 1 && (!writes_only || op.is_write()))
        .map(|(_, (k, _))| *k)
        .collect()
}

/// Absent probe keys derived from the view: bit flips of present keys, neighbours, fixed keys.
pub fn absent_probes(view: &Map, seed: u64, n: usize) -> Vec<Key> {
    let keys: Vec<Key> = view.keys().cloned().collect();
    let mut s = SplitMix(seed);
    let mut out = Vec::new();
    for _ in 0..n {
        let k = if keys.is_empty() || s.below(4) == 0 {
            s.key()
        } else {
            let mut k = keys[s.below(keys.len() as u64) as usize];
            let bit = s.below(256) as usize;
            let v = crate::util::get_bit(&k, bit);
            crate::util::set_bit(&mut k, bit, !v);
            match s.below(3) {
                0 => {
                    for i in bit + 1..256 {
                        crate::util::set_bit(&mut k, i, false)
                    }
                }
                1 => {
                    let r = s.key();
                    for i in bit + 1..256 {
                        crate::util::set_bit(&mut k, i, crate::util::get_bit(&r, i))
                    }
                }
                _ => {}
            }
            k
        };
        if !view.contains_key(&k) {
            out.push(k);
        }
    }
    for k in [[0u8; 32], [0xff; 32]] {
        if !view.contains_key(&k) {
            out.push(k);
        }
    }
    out
}

pub fn check_values<H: HK>(
    db: &Db<H>,
    view: &Map,
    keys: &[Key],
    via_session: bool,
    step: usize,
) -> Result<(), Violation> {
    let sess = if via_session {
        Some(db.begin(&[], false).map_err(|f| viol(step, f.sig()))?)
    } else {
        None
    };
    for k in keys {
        let want = view.get(k).map(|v| v.bytes.as_ref());
        let got = match &sess {
            None => db.read(k).map_err(|f| viol(step, f.sig()))?,
            Some(s) => crate::driver::guard("Session::read", || s.read(*k))
                .map_err(|f| viol(step, f.sig()))?,
        };
        if got.as_ref() != want {
            return Err(viol(
                step,
                format!(
                    "{} of key {} returned {} but the model has {}",
                    if via_session { "Session::read" } else { "Nomt::read" },
                    hx8(k),
                    desc(got.as_deref()),
                    desc(want.map(|v| &v[..]))
                ),
            ));
        }
    }
    Ok(())
}

fn desc(v: Option<&[u8]>) -> String {
    match v {
        None => "None".into(),
        Some(b) => format!("Some(len {} {})", b.len(), hx8(b)),
    }
}

pub fn check_proofs<H: HK>(
    db: &Db<H>,
    overlays: &[&Overlay],
    view: &Map,
    queries: &[Key],
    shape: bool,
    step: usize,
    info: &mut CaseInfo,
) -> Result<(), Violation> {
    let sess = db.begin(overlays, false).map_err(|f| viol(step, f.sig()))?;
    let root = sess.prev_root().into_inner();
    let want_root = root_of(H::KIND, view);
    if root != want_root {
        return Err(viol(
            step,
            format!(
                "session prev_root {} differs from reference root {}",
                hx8(&root),
                hx8(&want_root)
            ),
        ));
    }
    let mut produced: Vec<(Key, nomt_core::proof::PathProof)> = Vec::new();
    for q in queries {
        let p = crate::driver::guard("Session::prove", || sess.prove(*q))
            .map_err(|f| viol(step, f.sig()))?;
        if shape {
            produced.push((*q, p.clone()));
        }
        let pi = observe::check_proof::<H>(&p, q, view, root).map_err(|m| viol(step, m))?;
        if shape {
            observe::check_proof_shape::<H>(&p, q, view).map_err(|m| viol(step, m))?;
        }
        info.bump("proofs");
        if pi.siblings >= 7 {
            info.bump("proofs_beyond_root_page");
        }
        if pi.present {
            info.bump("proofs_present");
        } else if pi.under_leaf {
            info.bump("proofs_absent_under_leaf");
        } else {
            info.bump("proofs_absent_under_terminator");
        }
        info.max("max_proof_depth", pi.siblings as u64);
    }
    if produced.len() >= 2 {
        multiproof_tier::<H>(produced, view, root, step, info)?;
    }
    Ok(())
}

/// C07 on store-produced proofs: the path proofs the store handed out for distinct terminals are
/// aggregated into a multi-proof, which must verify against the same root and answer every query
/// exactly as the individual (already judged) path proofs / the model do.
fn multiproof_tier<H: HK>(
    mut produced: Vec<(Key, nomt_core::proof::PathProof)>,
    view: &Map,
    root: [u8; 32],
    step: usize,
    info: &mut CaseInfo,
) -> Result<(), Violation> {
    use bitvec::prelude::*;
    use nomt_core::proof::{verify_multi_proof, MultiProof};
    use nomt_core::trie::LeafData;
    produced.sort_by(|a, b| a.0.cmp(&b.0));
    // one proof per terminal: a later query whose key shares the previous proof's terminal path is dropped
    let mut chosen: Vec<(Key, nomt_core::proof::PathProof)> = Vec::new();
    let mut all_queries: Vec<Key> = Vec::new();
    for (q, p) in produced {
        all_queries.push(q);
        let depth = p.siblings.len();
        let same_terminal = chosen.last().map_or(false, |(pq, pp)| {
            let d = pp.siblings.len();
            d <= 256 && pq.view_bits::<Msb0>()[..d.min(256)] == q.view_bits::<Msb0>()[..d.min(256)]
        });
        let _ = depth;
        if !same_terminal {
            chosen.push((q, p));
        }
    }
    if chosen.len() < 2 {
        return Ok(());
    }
    let proofs: Vec<nomt_core::proof::PathProof> = chosen.iter().map(|(_, p)| p.clone()).collect();
    let n_paths = proofs.len();
    let mp = crate::driver::guard("MultiProof::from_path_proofs", || Ok(MultiProof::from_path_proofs(proofs))).map_err(|f| viol(step, f.sig()))?;
    let vm = crate::driver::guard("verify_multi_proof", || Ok(verify_multi_proof::<H::N>(&mp, root)))
        .map_err(|f| viol(step, f.sig()))?
        .map_err(|e| viol(step, format!("the multi-proof aggregated from {n_paths} store-produced path proofs does not verify against the session root: {e:?}")))?;
    for q in &all_queries {
        match view.get(q) {
            Some(v) => {
                let r = vm.confirm_value(&LeafData { key_path: *q, value_hash: v.vh });
                if r.ok() != Some(true) {
                    return Err(viol(step, format!("multi-proof of store-produced proofs does not confirm the value of present key {} (the path proof does)", hx8(q))));
                }
                if vm.confirm_nonexistence(q).ok() != Some(false) {
                    return Err(viol(step, format!("multi-proof of store-produced proofs does not deny non-existence of present key {}", hx8(q))));
                }
            }
            None => {
                if vm.confirm_nonexistence(q).ok() != Some(true) {
                    return Err(viol(step, format!("multi-proof of store-produced proofs does not confirm non-existence of absent key {} (the path proof does)", hx8(q))));
                }
            }
        }
    }
    info.bump("multiproofs_of_store_proofs");
    info.add("multiproof_paths", n_paths as u64);
    Ok(())
}

pub fn proof_queries(view: &Map, seed: u64, n: usize) -> Vec<Key> {
    let keys: Vec<Key> = view.keys().cloned().collect();
    let mut s = SplitMix(seed);
    let mut q = Vec::new();
    let present = n / 2;
    if keys.len() <= present {
        q.extend(keys.iter().cloned());
    } else {
        for _ in 0..present {
            q.push(keys[s.below(keys.len() as u64) as usize]);
        }
    }
    q.extend(absent_probes(view, s.next(), n - n / 2));
    q
}

pub struct Runner<'a, H: HK> {
    pub hist: &'a History,
    pub obs: &'a Obs,
    pub dir: PathBuf,
    pub db: Option<Db<H>>,
    pub model: Model,
    pub cfg: Cfg,
    pub info: CaseInfo,
    pub budget: Budget,
    pub ver: u32,
    pub commits: usize,
    /// Replace rollback depths in the unspecified region (retained < n <= commits) by the guaranteed depth.
    pub clamp_rollback: bool,
}

pub enum StepOutcome {
    Done,
    Discard(String),
}

impl<'a, H: HK> Runner<'a, H> {
    pub fn new(hist: &'a History, obs: &'a Obs, scratch: &Scratch, budget: usize) -> Result<Self, Violation> {
        let dir = scratch.dir(hist.cfg.fs);
        let db = Db::<H>::open(&dir, &hist.cfg).map_err(|f| viol(0, f.sig()))?;
        Ok(Runner {
            hist,
            obs,
            dir,
            db: Some(db),
            model: Model::new(H::KIND, hist.cfg.rollback, hist.cfg.max_log as usize),
            cfg: hist.cfg.clone(),
            info: CaseInfo::default(),
            budget: Budget { left: budget },
            ver: 1,
            commits: 0,
            clamp_rollback: false,
        })
    }

    /// Like `new`, but on an existing (already created, empty) store directory.
    pub fn with_dir(hist: &'a History, obs: &'a Obs, dir: PathBuf, budget: usize) -> Result<Self, Violation> {
        let db = Db::<H>::open(&dir, &hist.cfg).map_err(|f| viol(0, f.sig()))?;
        Ok(Runner {
            hist,
            obs,
            dir,
            db: Some(db),
            model: Model::new(H::KIND, hist.cfg.rollback, hist.cfg.max_log as usize),
            cfg: hist.cfg.clone(),
            info: CaseInfo::default(),
            budget: Budget { left: budget },
            ver: 1,
            commits: 0,
            clamp_rollback: false,
        })
    }

    pub fn db(&self) -> &Db<H> {
        self.db.as_ref().unwrap()
    }

    fn fail(&self, step: usize, f: Fail) -> Result<StepOutcome, Violation> {
        if f.is_bucket_exhaustion() {
            return Ok(StepOutcome::Discard("bucket_exhaustion".into()));
        }
        Err(viol(step, f.sig()))
    }

    pub fn step(&mut self, i: usize, st: &Step) -> Result<StepOutcome, Violation> {
        match st {
            Step::Commit(c) => self.commit(i, c),
            Step::Reopen(newcfg) => {
                let db = self.db.take().unwrap();
                db.close().map_err(|f| viol(i, f.sig()))?;
                self.cfg = gen::retune(&self.hist.cfg, newcfg);
                let db = Db::<H>::open(&self.dir, &self.cfg).map_err(|f| viol(i, f.sig()))?;
                self.db = Some(db);
                self.info.bump("reopens");
                self.after_step(i, &[], true)?;
                Ok(StepOutcome::Done)
            }
            Step::Rollback(n) => self.rollback(i, *n as usize),
        }
    }

    fn rollback(&mut self, i: usize, n: usize) -> Result<StepOutcome, Violation> {
        let n = if self.clamp_rollback && n > self.model.guaranteed && n <= self.model.snaps.len() {
            self.model.guaranteed
        } else {
            n
        };
        let before_root = self.db().root();
        let before_seqn = self.db().seqn();
        let res = self.db().rollback(n);
        if n == 0 {
            if let Err(f) = res {
                return Err(viol(i, format!("rollback(0) failed: {}", f.sig())));
            }
            self.after_step(i, &[], false)?;
            return Ok(StepOutcome::Done);
        }
        let must_ok = self.model.rollback && n <= self.model.guaranteed;
        let must_err = !self.model.rollback || n > self.model.snaps.len();
        match res {
            Ok(()) => {
                if must_err {
                    return Err(viol(
                        i,
                        format!(
                            "rollback({n}) succeeded but only {} commits exist (rollback enabled: {})",
                            self.model.snaps.len(),
                            self.model.rollback
                        ),
                    ));
                }
                if n == self.model.guaranteed && n > 0 {
                    self.info.bump("rollback_all_retained");
                }
                if n > self.model.guaranteed {
                    self.info.bump("rollback_beyond_guaranteed_ok");
                }
                if self.model.snaps.len() > self.model.max_log {
                    self.info.bump("rollback_after_pruning");
                }
                self.model.rollback_apply(n);
                self.info.bump("rollbacks_ok");
                self.after_step(i, &[], true)?;
            }
            Err(f) => {
                if f.kind == crate::driver::FailKind::Panic {
                    return Err(viol(i, f.sig()));
                }
                if must_ok {
                    return Err(viol(
                        i,
                        format!(
                            "rollback({n}) failed although {} commits are retained: {}",
                            self.model.guaranteed,
                            f.sig()
                        ),
                    ));
                }
                self.info.bump("rollbacks_refused");
                // must change nothing
                if self.db().root() != before_root || self.db().seqn() != before_seqn {
                    return Err(viol(i, format!("refused rollback({n}) changed root or seqn")));
                }
                if self.db().nomt.is_poisoned() {
                    return Err(viol(i, format!("refused rollback({n}) poisoned the handle")));
                }
                self.after_step(i, &[], true)?;
            }
        }
        Ok(StepOutcome::Done)
    }

    fn commit(&mut self, i: usize, c: &CommitSpec) -> Result<StepOutcome, Violation> {
        let batch = gen::resolve_batch(self.hist.salt, &c.batch, &self.model.cur, self.ver, &mut self.budget);
        self.ver += 1;
        // An overlay chain of n: overlay 0 carries the batch; overlay j > 0 carries the same spec with
        // its op kinds rotated j times (Delete -> blind Write -> ReadDelete -> ReadWrite -> Delete),
        // resolved against the view left by overlay j-1 - so chains delete, re-create and re-delete the
        // very keys their ancestors touched.
        let parts: Vec<Vec<(Key, MOp)>> = match c.via {
            Via::Session => vec![batch.clone()],
            Via::Overlays(n) => {
                let n = n.max(1) as usize;
                let mut parts = vec![batch.clone()];
                let mut view = crate::model::apply(H::KIND, &self.model.cur, &batch);
                for j in 1..n {
                    let mut spec = c.batch.clone();
                    for e in spec.entries.iter_mut() {
                        for _ in 0..j {
                            e.kind = match e.kind {
                                gen::OpKind::Delete => gen::OpKind::Write,
                                gen::OpKind::Write => gen::OpKind::ReadDelete,
                                gen::OpKind::ReadDelete => gen::OpKind::ReadWrite,
                                gen::OpKind::ReadWrite => gen::OpKind::Delete,
                                gen::OpKind::Read => gen::OpKind::Read,
                            };
                        }
                    }
                    spec.bulk = match spec.bulk {
                        Some(gen::Bulk::Delete { seed, permille }) => Some(gen::Bulk::Insert {
                            seed,
                            n: (permille / 8).max(1),
                            cluster: 0,
                            plen: 0,
                            vlo: 1,
                            vhi: 40,
                        }),
                        Some(gen::Bulk::Insert { seed, .. }) => Some(gen::Bulk::Delete { seed, permille: 300 }),
                        other => other,
                    };
                    let part = gen::resolve_batch(self.hist.salt, &spec, &view, self.ver, &mut self.budget);
                    self.ver += 1;
                    view = crate::model::apply(H::KIND, &view, &part);
                    parts.push(part);
                }
                parts
            }
        };
        let batch: Vec<(Key, MOp)> = if parts.len() == 1 {
            batch
        } else {
            // for classification / touched keys: the union, last op per key
            let mut m: BTreeMap<Key, MOp> = BTreeMap::new();
            for p in &parts {
                for (k, op) in p {
                    m.insert(*k, op.clone());
                }
            }
            m.into_iter().collect()
        };
        // classification
        for (k, op) in &batch {
            let prior = self.model.cur.get(k);
            match (prior, op.new_value()) {
                (Some(_), Some(None)) => self.info.bump("delete_existing"),
                (None, Some(None)) => self.info.bump("delete_absent"),
                (Some(p), Some(Some(v))) => {
                    let was = p.bytes.len() > gen::MAX_LEAF_VALUE;
                    let is = v.len() > gen::MAX_LEAF_VALUE;
                    if was != is {
                        self.info.bump("inleaf_overflow_migration");
                    }
                }
                _ => {}
            }
            if let Some(Some(v)) = op.new_value() {
                if v.len() > gen::MAX_LEAF_VALUE {
                    self.info.bump("overflow_writes");
                }
                if v.is_empty() {
                    self.info.bump("empty_value_writes");
                }
            }
        }
        match c.via {
            Via::Session => {
                let opts = CommitOpts {
                    witness: c.witness,
                    warm: select_mask(&batch, c.warm_mask, false),
                    preserve: select_mask(&batch, c.preserve_mask, true),
                };
                let sess = match self.db().begin(&[], c.witness) {
                    Ok(s) => s,
                    Err(f) => return self.fail(i, f),
                };
                // reads through the session the batch is built in
                if self.obs.values {
                    for (k, _) in batch.iter().take(24) {
                        let want = self.model.cur.get(k).map(|v| v.bytes.as_ref().clone());
                        let got = crate::driver::guard("Session::read", || sess.read(*k))
                            .map_err(|f| viol(i, f.sig()))?;
                        if got != want {
                            return Err(viol(
                                i,
                                format!("Session::read({}) before finish disagrees with model", hx8(k)),
                            ));
                        }
                    }
                }
                let fin = match self.db().finish(sess, &self.model.cur, &batch, &opts) {
                    Ok(f) => f,
                    Err(f) => return self.fail(i, f),
                };
                let post = crate::model::apply(H::KIND, &self.model.cur, &batch);
                let want_root = root_of(H::KIND, &post);
                if self.obs.root && fin.root != want_root {
                    return Err(viol(
                        i,
                        format!(
                            "FinishedSession::root {} != reference root {} ({} keys)",
                            hx8(&fin.root),
                            hx8(&want_root),
                            post.len()
                        ),
                    ));
                }
                if self.obs.witness && c.witness {
                    let w = fin
                        .witness
                        .as_ref()
                        .ok_or_else(|| viol(i, "witness mode enabled but no witness produced"))?;
                    let wi = observe::check_witness::<H>(
                        w,
                        fin.prev_root,
                        fin.root,
                        &self.model.cur,
                        &batch,
                        &post,
                    )
                    .map_err(|m| viol(i, m))?;
                    self.info.bump("witnesses");
                    self.info.max("max_witness_paths", wi.paths as u64);
                    if wi.paths >= 2 && wi.writes >= 1 {
                        self.info.bump("witness_nontrivial");
                    }
                    if wi.max_ops_per_path >= 2 {
                        self.info.bump("witness_shared_terminal");
                    }
                    if wi.root_page_terminal {
                        self.info.bump("witness_root_page_terminal");
                    }
                }
                if c.nonblocking {
                    match self.db().try_commit_finished(fin.fs) {
                        Ok(None) => {}
                        Ok(Some(_)) => {
                            return Err(viol(
                                i,
                                "try_commit_nonblocking handed the changeset back with no session alive",
                            ))
                        }
                        Err(f) => return self.fail(i, f),
                    }
                } else if let Err(f) = self.db().commit_finished(fin.fs) {
                    return self.fail(i, f);
                }
                self.model.commit(&batch);
            }
            Via::Overlays(_) => {
                // build chain
                let mut overlays: Vec<Overlay> = Vec::new();
                let mut view = self.model.cur.clone();
                for part in &parts {
                    let refs: Vec<&Overlay> = overlays.iter().rev().collect();
                    let sess = match self.db().begin(&refs, false) {
                        Ok(s) => s,
                        Err(f) => return self.fail(i, f),
                    };
                    let opts = CommitOpts {
                        witness: false,
                        warm: select_mask(part, c.warm_mask, false),
                        preserve: select_mask(part, c.preserve_mask, true),
                    };
                    let fin = match self.db().finish(sess, &view, part, &opts) {
                        Ok(f) => f,
                        Err(f) => return self.fail(i, f),
                    };
                    view = crate::model::apply(H::KIND, &view, part);
                    let want_root = root_of(H::KIND, &view);
                    let o = overlay_of(fin).map_err(|f| viol(i, f.sig()))?;
                    if self.obs.root && o.root().into_inner() != want_root {
                        return Err(viol(
                            i,
                            format!(
                                "Overlay::root {} != reference root {}",
                                hx8(&o.root().into_inner()),
                                hx8(&want_root)
                            ),
                        ));
                    }
                    overlays.push(o);
                    if self.obs.proofs > 0 {
                        // proofs through a session layered on the uncommitted chain
                        let refs: Vec<&Overlay> = overlays.iter().rev().collect();
                        let q = proof_queries(&view, self.hist.salt ^ 0x0511 ^ i as u64, self.obs.proofs / 2 + 2);
                        let mut info = std::mem::take(&mut self.info);
                        let r = check_proofs(self.db.as_ref().unwrap(), &refs, &view, &q, self.obs.proof_shape, i, &mut info);
                        info.bump("proof_sessions_on_overlay");
                        self.info = info;
                        r?;
                    }
                    if self.obs.values {
                        // reads through a session layered on the uncommitted chain
                        let refs: Vec<&Overlay> = overlays.iter().rev().collect();
                        let sess = self.db().begin(&refs, false).map_err(|f| viol(i, f.sig()))?;
                        let mut keys: Vec<Key> = part.iter().map(|(k, _)| *k).take(24).collect();
                        keys.extend(absent_probes(&view, self.hist.salt ^ 77 ^ i as u64, 6));
                        for k in keys {
                            let want = view.get(&k).map(|v| v.bytes.as_ref().clone());
                            let got = crate::driver::guard("Session::read", || sess.read(k))
                                .map_err(|f| viol(i, f.sig()))?;
                            if got != want {
                                return Err(viol(i, format!("Session::read({}) on overlay chain disagrees with model", hx8(&k))));
                            }
                        }
                    }
                }
                self.info.bump("overlay_chains");
                self.info.max("max_overlay_chain", overlays.len() as u64);
                for (o, part) in overlays.into_iter().zip(parts.iter()) {
                    let r = if c.nonblocking {
                        self.db().try_commit_overlay(o).map(|x| x.is_none())
                    } else {
                        self.db().commit_overlay(o).map(|_| true)
                    };
                    match r {
                        Ok(true) => {}
                        Ok(false) => {
                            return Err(viol(i, "overlay try_commit_nonblocking handed back with no session alive"))
                        }
                        Err(f) => return self.fail(i, f),
                    }
                    self.model.commit(part);
                }
            }
        }
        self.commits += 1;
        self.info.bump("commits");
        let touched: Vec<Key> = batch.iter().map(|(k, _)| *k).collect();
        self.after_step(i, &touched, false)?;
        Ok(StepOutcome::Done)
    }

    /// Observers after a step.
    pub fn after_step(&mut self, i: usize, touched: &[Key], full: bool) -> Result<(), Violation> {
        let db = self.db.as_ref().unwrap();
        let view = &self.model.cur;
        if db.nomt.is_poisoned() {
            return Err(viol(i, "handle reports poisoned without any injected fault"));
        }
        if self.obs.root {
            let want = root_of(H::KIND, view);
            let got = db.root();
            if got != want {
                return Err(viol(
                    i,
                    format!(
                        "Nomt::root {} != reference root {} ({} keys)",
                        hx8(&got),
                        hx8(&want),
                        view.len()
                    ),
                ));
            }
            if view.is_empty() && got != [0u8; 32] {
                return Err(viol(i, "empty set but root is not the terminator"));
            }
        }
        if db.seqn() != self.model.seqn {
            return Err(viol(
                i,
                format!("sync_seqn {} != model {}", db.seqn(), self.model.seqn),
            ));
        }
        if self.obs.values {
            let full = full || i % 4 == 3 || i + 1 == self.hist.steps.len();
            let mut keys: Vec<Key> = Vec::new();
            if full {
                keys.extend(view.keys().cloned());
            } else {
                keys.extend(touched.iter().cloned());
                let all: Vec<Key> = view.keys().cloned().collect();
                let mut s = SplitMix(self.hist.salt ^ i as u64);
                for _ in 0..32.min(all.len()) {
                    keys.push(all[s.below(all.len() as u64) as usize]);
                }
            }
            keys.extend(touched.iter().filter(|k| !view.contains_key(*k)).cloned());
            keys.extend(absent_probes(view, self.hist.salt ^ (i as u64) << 8, 16));
            check_values(db, view, &keys, false, i)?;
            // a session begun afterwards
            let sample: Vec<Key> = keys.iter().take(48).cloned().collect();
            check_values(db, view, &sample, true, i)?;
            if full {
                self.info.bump("full_scans");
            }
        }
        if self.obs.proofs > 0 {
            let q = proof_queries(view, self.hist.salt ^ 0x9999 ^ i as u64, self.obs.proofs);
            let mut info = std::mem::take(&mut self.info);
            let r = check_proofs(db, &[], view, &q, self.obs.proof_shape, i, &mut info);
            self.info = info;
            r?;
        }
        if self.obs.decode || self.obs.alloc {
            let img = crate::iosim::read_dir_image(&self.dir).map_err(|e| viol(i, format!("INFRA: reading the directory: {e}")))?;
            let d = crate::decode::decode_image(&img).map_err(|m| viol(i, format!("on-disk image is not well-formed: {m}")))?;
            crate::decode::check_values(&d, view).map_err(|m| viol(i, format!("on-disk image does not decode to the model: {m}")))?;
            self.info.max("max_leaves", d.n_leaves as u64);
            self.info.add("leaves_exactly_full_seen_in_images", d.leaves_exactly_full as u64);
            self.info.add("leaves_with_fewer_than_8_free_bytes_seen_in_images", d.leaves_nearly_full as u64);
            self.info.max("max_bbn", d.n_bbn as u64);
            self.info.max("max_branch_node_body_bytes_of_4086", d.max_bbn_body as u64);
            if d.max_bbn_body >= 4079 {
                self.info.bump("images_with_branch_node_within_8_bytes_of_capacity");
            }
            if d.max_bbn_body == 4086 {
                self.info.bump("images_with_branch_node_exactly_full");
            }
            self.info.max("max_free_ln", (d.ln_free.entries.len() + d.ln_free.list_pages.len()) as u64);
            self.info.max("max_free_list_pages_ln", d.ln_free.list_pages.len() as u64);
            self.info.max("max_ht_tombstones", d.ht_tombstones as u64);
            self.info.max("max_stored_merkle_pages", d.ht_full as u64);
            self.info.add("overflow_values_decoded", d.n_overflow_values as u64);
            if d.n_leaves >= 2 && !d.ln_free.entries.is_empty() && d.ht_pages.iter().any(|p| !p.path.is_empty()) {
                self.info.bump("decoded_nontrivial_images");
            }
            self.info.bump("images_decoded");
            if self.obs.decode {
                let ms = crate::decode::check_merkle(&d, &img, H::KIND, view)
                    .map_err(|m| viol(i, format!("on-disk merkle pages do not match the reference trie: {m}")))?;
                self.info.add("merkle_nodes_compared", ms.nodes_compared as u64);
                self.info.add("elided_pages_confirmed", ms.elided_ok as u64);
                self.info.max("max_stored_page_depth", ms.max_depth as u64);
            }
            if self.obs.alloc {
                crate::decode::check_partition(&d).map_err(|m| viol(i, format!("allocation: {m}")))?;
                let u = db.nomt.hash_table_utilization();
                if u.occupied != d.ht_full {
                    return Err(viol(i, format!("hash_table_utilization().occupied = {} but {} buckets are marked full on disk", u.occupied, d.ht_full)));
                }
                if u.capacity != d.meta.as_ref().unwrap().buckets as usize {
                    return Err(viol(i, format!("hash_table_utilization().capacity = {} but the table has {} buckets", u.capacity, d.meta.as_ref().unwrap().buckets)));
                }
                if view.is_empty() && u.occupied != 0 {
                    return Err(viol(i, format!("store is empty but {} hash-table buckets are occupied", u.occupied)));
                }
            }
        }
        // classification by model
        let inleaf: usize = view
            .values()
            .map(|v| if v.bytes.len() <= gen::MAX_LEAF_VALUE { v.bytes.len() + 34 } else { 200 })
            .sum();
        self.info.max("max_keys", view.len() as u64);
        self.info.max("max_leaf_bytes", inleaf as u64);
        if view.values().any(|v| v.bytes.len() > gen::MAX_LEAF_VALUE) {
            self.info.bump("steps_with_overflow_present");
        }
        let ks: Vec<&Key> = view.keys().collect();
        let msb = ks.windows(2).map(|w| shared_bits(w[0], w[1])).max().unwrap_or(0);
        self.info.max("max_shared_bits", msb as u64);
        Ok(())
    }

    pub fn finish(mut self) -> Result<CaseInfo, Violation> {
        if let Some(db) = self.db.take() {
            db.close().map_err(|f| viol(self.hist.steps.len(), f.sig()))?;
        }
        rm(&self.dir);
        Ok(std::mem::take(&mut self.info))
    }
}

impl<'a, H: HK> Drop for Runner<'a, H> {
    fn drop(&mut self) {
        if let Some(db) = self.db.take() {
            let _ = db.close();
        }
        rm(&self.dir);
    }
}

/// Run a whole history with the given observers.
pub fn run_history<H: HK>(hist: &History, obs: &Obs, scratch: &Scratch, budget: usize) -> Verdict {
    let mut r = Runner::<H>::new(hist, obs, scratch, budget)?;
    for (i, st) in hist.steps.iter().enumerate() {
        match r.step(i, st)? {
            StepOutcome::Done => {}
            StepOutcome::Discard(why) => {
                let mut info = std::mem::take(&mut r.info);
                info.discarded = Some(why);
                return Ok(info);
            }
        }
    }
    // final reopen with the original configuration: everything again
    let n = hist.steps.len();
    r.step(n, &Step::Reopen(hist.cfg.clone()))?;
    r.finish()
}

pub fn dispatch(hist: &History, obs: &Obs, scratch: &Scratch, budget: usize) -> Verdict {
    let r0 = crate::driver::LOCK_RETRIES.load(std::sync::atomic::Ordering::Relaxed);
    let mut v = dispatch_inner(hist, obs, scratch, budget);
    let r1 = crate::driver::LOCK_RETRIES.load(std::sync::atomic::Ordering::Relaxed);
    if let (Ok(info), true) = (&mut v, r1 > r0) {
        info.bump("excluded_kf_lock_release_after_drop");
    }
    v
}

fn dispatch_inner(hist: &History, obs: &Obs, scratch: &Scratch, budget: usize) -> Verdict {
    match hist.cfg.hasher {
        crate::reftrie::HasherKind::Blake3 | crate::reftrie::HasherKind::TailLabel => run_history::<crate::driver::B3>(hist, obs, scratch, budget),
        crate::reftrie::HasherKind::Sha2 => run_history::<crate::driver::S2>(hist, obs, scratch, budget),
    }
}

#[allow(dead_code)]
fn unused(_: Node) {
    let _ = pick(0, 1);
}

impl<'a, H: HK> Runner<'a, H> {
    /// Resume on an existing store directory with a given model state (used by the fault engines).
    pub fn resume(
        hist: &'a History,
        obs: &'a Obs,
        dir: PathBuf,
        cfg: Cfg,
        model: Model,
        ver: u32,
        budget: usize,
    ) -> Result<Self, Violation> {
        let db = Db::<H>::open(&dir, &cfg).map_err(|f| viol(0, f.sig()))?;
        Ok(Runner {
            hist,
            obs,
            dir,
            db: Some(db),
            model,
            cfg,
            info: CaseInfo::default(),
            budget: Budget { left: budget },
            ver,
            commits: 0,
            clamp_rollback: false,
        })
    }
    /// Give up the database handle and keep the directory.
    pub fn detach(mut self) -> Option<Db<H>> {
        let db = self.db.take();
        self.dir = PathBuf::from("/nonexistent-nomt-verif");
        db
    }
}


/// Decode the on-disk image of an idle store and compare it with `view` (C16 predicates).
pub fn decode_check<H: HK>(dir: &Path, view: &Map) -> Result<crate::decode::Decoded, String> {
    let img = crate::iosim::read_dir_image(dir).map_err(|e| format!("INFRA: reading the directory: {e}"))?;
    let d = crate::decode::decode_image(&img).map_err(|m| format!("on-disk image is not well-formed: {m}"))?;
    crate::decode::check_values(&d, view).map_err(|m| format!("on-disk image does not decode to the model: {m}"))?;
    crate::decode::check_merkle(&d, &img, H::KIND, view)
        .map_err(|m| format!("on-disk merkle pages do not match the reference trie: {m}"))?;
    Ok(d)
}
