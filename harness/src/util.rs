//! Small deterministic utilities: PRNG for *derived* data (always seeded from a generated value),
//! key/bit helpers, hex.

pub type Key = [u8; 32];

/// splitmix64: used only to expand generated seeds into bulk data deterministically.
#[derive(Clone)]
pub struct SplitMix(pub u64);
impl SplitMix {
    pub fn next(&mut self) -> u64 {
        self.0 = self.0.wrapping_add(0x9E3779B97F4A7C15);
        let mut z = self.0;
        z = (z ^ (z >> 30)).wrapping_mul(0xBF58476D1CE4E5B9);
        z = (z ^ (z >> 27)).wrapping_mul(0x94D049BB133111EB);
        z ^ (z >> 31)
    }
    pub fn below(&mut self, n: u64) -> u64 {
        if n == 0 {
            0
        } else {
            self.next() % n
        }
    }
    pub fn key(&mut self) -> Key {
        let mut k = [0u8; 32];
        for c in k.chunks_mut(8) {
            c.copy_from_slice(&self.next().to_le_bytes());
        }
        k
    }
}

pub fn get_bit(k: &Key, i: usize) -> bool {
    (k[i / 8] >> (7 - (i % 8))) & 1 == 1
}
pub fn set_bit(k: &mut Key, i: usize, v: bool) {
    let m = 1u8 << (7 - (i % 8));
    if v {
        k[i / 8] |= m
    } else {
        k[i / 8] &= !m
    }
}
pub fn shared_bits(a: &Key, b: &Key) -> usize {
    for i in 0..32 {
        let x = a[i] ^ b[i];
        if x != 0 {
            return i * 8 + x.leading_zeros() as usize;
        }
    }
    256
}

/// Deterministic value bytes for (key, version, len): any mix-up of keys/versions is visible.
pub fn value_bytes(key: &Key, ver: u32, len: usize) -> Vec<u8> {
    let mut out = Vec::with_capacity(len);
    let mut s = SplitMix(
        u64::from_le_bytes(key[0..8].try_into().unwrap())
            ^ u64::from_le_bytes(key[24..32].try_into().unwrap()).rotate_left(17)
            ^ ((ver as u64) << 32 | len as u64),
    );
    while out.len() + 8 <= len {
        out.extend_from_slice(&s.next().to_le_bytes());
    }
    let rest = s.next().to_le_bytes();
    let need = len - out.len();
    out.extend_from_slice(&rest[..need]);
    if len >= 4 {
        out[..4].copy_from_slice(&ver.to_le_bytes());
    }
    out
}

pub fn hx(b: &[u8]) -> String {
    hex::encode(b)
}
pub fn hx8(b: &[u8]) -> String {
    hex::encode(&b[..b.len().min(8)])
}
pub fn unhx32(s: &str) -> Key {
    let v = hex::decode(s).expect("hex");
    v.try_into().expect("32 bytes")
}

/// Monotone index mapping (keeps proptest shrinking effective).
pub fn pick(i: u16, len: usize) -> usize {
    ((i as usize) * len) >> 16
}

pub fn fnv(bytes: &[u8]) -> u64 {
    let mut h = 0xcbf29ce484222325u64;
    for b in bytes {
        h ^= *b as u64;
        h = h.wrapping_mul(0x100000001b3);
    }
    h
}
