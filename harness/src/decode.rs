//! Independent decoder of the on-disk formats (meta, bbn, ln incl. overflow chains, free lists, ht,
//! wal, rollback segments), written from the layout comments in the sources and
//! docs/nomt_specification.md. It uses nothing from nomt: only the xxh3 / blake3 / sha2 crates.

use crate::iosim::{Content, DirImage, PAGE};
use crate::model::Map;
use crate::reftrie::{HasherKind, Node, TERMINATOR};
use crate::util::{get_bit, hx8, set_bit, Key};
use std::collections::{BTreeMap, BTreeSet, HashMap};

fn u16le(b: &[u8], o: usize) -> u16 {
    u16::from_le_bytes(b[o..o + 2].try_into().unwrap())
}
fn u32le(b: &[u8], o: usize) -> u32 {
    u32::from_le_bytes(b[o..o + 4].try_into().unwrap())
}
fn u64le(b: &[u8], o: usize) -> u64 {
    u64::from_le_bytes(b[o..o + 8].try_into().unwrap())
}

#[derive(Debug, Clone)]
pub struct MetaD {
    pub ln_freelist_pn: u32,
    pub ln_bump: u32,
    pub bbn_freelist_pn: u32,
    pub bbn_bump: u32,
    pub sync_seqn: u32,
    pub buckets: u32,
    pub seed: [u8; 16],
    pub rollback_start: u64,
    pub rollback_end: u64,
}

pub fn decode_meta(c: &Content) -> Result<MetaD, String> {
    let p = c.read_page(0).ok_or("meta: page 0 missing")?;
    if &p[0..4] != b"NOMT" {
        return Err("meta: bad magic".into());
    }
    if u32le(p, 4) != 1 {
        return Err(format!("meta: version {}", u32le(p, 4)));
    }
    Ok(MetaD {
        ln_freelist_pn: u32le(p, 8),
        ln_bump: u32le(p, 12),
        bbn_freelist_pn: u32le(p, 16),
        bbn_bump: u32le(p, 20),
        sync_seqn: u32le(p, 24),
        buckets: u32le(p, 28),
        seed: p[32..48].try_into().unwrap(),
        rollback_start: u64le(p, 48),
        rollback_end: u64le(p, 56),
    })
}

static ZERO_PAGE: [u8; PAGE] = [0u8; PAGE];
fn page(c: &Content, pn: u32) -> &[u8] {
    c.read_page(pn as u64).unwrap_or(&ZERO_PAGE)
}

#[derive(Debug, Default, Clone)]
pub struct FreeListD {
    /// pages storing the list itself
    pub list_pages: Vec<u32>,
    /// free entries
    pub entries: Vec<u32>,
}

/// Free-list page: `prev: u32, count: u16, items: [u32; count]`, at most (4096-6)/4 items.
pub fn decode_free_list(c: &Content, head: u32, bump: u32, what: &str) -> Result<FreeListD, String> {
    let mut out = FreeListD::default();
    let mut seen = BTreeSet::new();
    let mut pn = head;
    while pn != 0 {
        if pn >= bump {
            return Err(format!("{what} free list: list page {pn} >= bump {bump}"));
        }
        if !seen.insert(pn) {
            return Err(format!("{what} free list: cycle at page {pn}"));
        }
        let p = page(c, pn);
        let prev = u32le(p, 0);
        let count = u16le(p, 4) as usize;
        if count > (PAGE - 6) / 4 {
            return Err(format!("{what} free list: page {pn} claims {count} items"));
        }
        out.list_pages.push(pn);
        for i in 0..count {
            let e = u32le(p, 6 + i * 4);
            if e == 0 || e >= bump {
                return Err(format!("{what} free list: entry {e} out of range (bump {bump})"));
            }
            out.entries.push(e);
        }
        pn = prev;
    }
    let mut all: Vec<u32> = out.list_pages.iter().chain(out.entries.iter()).cloned().collect();
    all.sort();
    if all.windows(2).any(|w| w[0] == w[1]) {
        return Err(format!("{what} free list: a page number is tracked twice"));
    }
    Ok(out)
}

#[derive(Debug, Clone)]
pub struct BranchD {
    pub pn: u32,
    pub keys: Vec<Key>,
    pub ptrs: Vec<u32>,
    pub prefix_compressed: usize,
    pub prefix_len: usize,
}

/// Branch node: `bbn_pn u32, n u16, prefix_compressed u16, prefix_len u16, cells u16[n]` then a bit
/// vector `prefix ++ separators`, node pointers u32[n] aligned to the end of the page.
pub fn decode_branch(p: &[u8], pn: u32) -> Result<BranchD, String> {
    let bbn_pn = u32le(p, 0);
    if bbn_pn != pn {
        return Err(format!("bbn page {pn}: header says bbn_pn {bbn_pn}"));
    }
    let n = u16le(p, 4) as usize;
    let pc = u16le(p, 6) as usize;
    let plen = u16le(p, 8) as usize;
    if n == 0 {
        return Err(format!("bbn page {pn}: n = 0 in a live node"));
    }
    if 10 + 2 * n + 4 * n > PAGE || pc > n || plen > 256 {
        return Err(format!("bbn page {pn}: impossible header n={n} prefix_compressed={pc} prefix_len={plen}"));
    }
    let bits_start = 10 + 2 * n;
    let ptr_start = PAGE - 4 * n;
    let bit = |i: usize| -> Result<bool, String> {
        let byte = bits_start + i / 8;
        if byte >= ptr_start {
            return Err(format!("bbn page {pn}: separator bits run into the node pointers"));
        }
        Ok((p[byte] >> (7 - i % 8)) & 1 == 1)
    };
    let mut keys = Vec::with_capacity(n);
    let mut prev_end = 0usize;
    for i in 0..n {
        let end = u16le(p, 10 + 2 * i) as usize;
        if end < prev_end {
            return Err(format!("bbn page {pn}: cell offsets not monotone"));
        }
        let mut k = [0u8; 32];
        let mut w = 0usize;
        if i < pc {
            for j in 0..plen {
                set_bit(&mut k, w, bit(j)?);
                w += 1;
            }
        }
        let sep_len = end - prev_end;
        if w + sep_len > 256 {
            return Err(format!("bbn page {pn}: separator {i} longer than 256 bits"));
        }
        for j in 0..sep_len {
            set_bit(&mut k, w, bit(plen + prev_end + j)?);
            w += 1;
        }
        keys.push(k);
        prev_end = end;
    }
    let ptrs: Vec<u32> = (0..n).map(|i| u32le(p, ptr_start + 4 * i)).collect();
    Ok(BranchD {
        pn,
        keys,
        ptrs,
        prefix_compressed: pc,
        prefix_len: plen,
    })
}

#[derive(Debug, Clone)]
pub enum CellD {
    Inline(Vec<u8>),
    Overflow { size: usize, hash: [u8; 32], pages: Vec<u32> },
}

/// Leaf: `n u16`, cell pointers `(key[32] ++ offset u16)`, values packed towards the end; bit 15 of
/// the offset marks an overflow cell `(u64 size, [u8;32] hash, u32 pointers..)`.
pub fn decode_leaf(p: &[u8], pn: u32) -> Result<Vec<(Key, CellD)>, String> {
    let n = u16le(p, 0) as usize;
    if n == 0 {
        return Err(format!("ln page {pn}: live leaf with n = 0"));
    }
    if 2 + 34 * n > PAGE {
        return Err(format!("ln page {pn}: n = {n} does not fit"));
    }
    let off = |i: usize| -> (usize, bool) {
        let v = u16le(p, 2 + 34 * i + 32);
        ((v & 0x7fff) as usize, v & 0x8000 != 0)
    };
    let mut out = Vec::with_capacity(n);
    let mut prev_key: Option<Key> = None;
    for i in 0..n {
        let key: Key = p[2 + 34 * i..2 + 34 * i + 32].try_into().unwrap();
        if let Some(pk) = prev_key {
            if pk >= key {
                return Err(format!("ln page {pn}: keys not strictly increasing at cell {i}"));
            }
        }
        prev_key = Some(key);
        let (start, ov) = off(i);
        let end = if i + 1 == n { PAGE } else { off(i + 1).0 };
        if start < 2 + 34 * n || end < start || end > PAGE {
            return Err(format!("ln page {pn}: cell {i} offsets [{start},{end}) are impossible (n={n})"));
        }
        let raw = &p[start..end];
        let cell = if ov {
            if raw.len() < 8 + 32 + 4 || raw.len() % 4 != 0 || raw.len() > 8 + 32 + 15 * 4 {
                return Err(format!("ln page {pn}: overflow cell {i} has length {}", raw.len()));
            }
            CellD::Overflow {
                size: u64le(raw, 0) as usize,
                hash: raw[8..40].try_into().unwrap(),
                pages: raw[40..].chunks(4).map(|c| u32::from_le_bytes(c.try_into().unwrap())).collect(),
            }
        } else {
            CellD::Inline(raw.to_vec())
        };
        out.push((key, cell));
    }
    Ok(out)
}

/// Overflow page: `n_pointers u16, n_bytes u16, pointers u32[n], bytes`. Pages are visited in list
/// order, each contributing more page numbers (appended) and value bytes.
pub fn read_overflow(ln: &Content, size: usize, first: &[u32], bump: u32) -> Result<(Vec<u8>, Vec<u32>), String> {
    let mut list: Vec<u32> = first.to_vec();
    let mut val = Vec::with_capacity(size);
    let mut i = 0;
    while val.len() < size {
        let Some(&pn) = list.get(i) else {
            return Err(format!("overflow value of {size} bytes: page list exhausted after {} bytes", val.len()));
        };
        if pn == 0 || pn >= bump {
            return Err(format!("overflow page number {pn} out of range (bump {bump})"));
        }
        let p = page(ln, pn);
        let np = u16le(p, 0) as usize;
        let nb = u16le(p, 2) as usize;
        if 4 + 4 * np + nb > PAGE {
            return Err(format!("overflow page {pn}: header n_pointers={np} n_bytes={nb} does not fit"));
        }
        for j in 0..np {
            list.push(u32le(p, 4 + 4 * j));
        }
        val.extend_from_slice(&p[4 + 4 * np..4 + 4 * np + nb]);
        i += 1;
        if i > 200_000 {
            return Err("overflow chain too long".into());
        }
    }
    if val.len() != size {
        return Err(format!("overflow value: assembled {} bytes, cell says {size}", val.len()));
    }
    if i != list.len() {
        return Err(format!("overflow value: {} pages listed but only {i} needed", list.len()));
    }
    Ok((val, list))
}

#[derive(Debug, Clone)]
pub struct HtPageD {
    pub bucket: u64,
    pub label: [u8; 32],
    /// child indices from the root (documented decoding of the label)
    pub path: Vec<u8>,
    pub elided: u64,
}

#[derive(Default)]
pub struct Decoded {
    pub meta: Option<MetaD>,
    pub kv: BTreeMap<Key, Vec<u8>>,
    pub n_leaves: usize,
    pub n_bbn: usize,
    /// largest body of a live branch node: 6 bytes per entry + prefix and separator bits rounded up to a byte
    pub max_bbn_body: usize,
    /// leaves with no free byte between the cell pointers and the first value / with fewer than 8 free bytes
    pub leaves_exactly_full: usize,
    pub leaves_nearly_full: usize,
    pub n_overflow_values: usize,
    pub n_overflow_pages: usize,
    pub ln_free: FreeListD,
    pub bbn_free: FreeListD,
    pub ln_live: BTreeSet<u32>,
    pub bbn_live: BTreeSet<u32>,
    pub ht_full: usize,
    pub ht_tombstones: usize,
    pub ht_pages: Vec<HtPageD>,
    pub elided_children: usize,
    pub leaf_pages: BTreeSet<u32>,
    pub overflow_hashes: Vec<(Key, [u8; 32])>,
}

/// Documented page-id decoding: id = parent*64 + child + 1 as a 256-bit big-endian integer.
pub fn decode_page_label(label: &[u8; 32]) -> Result<Vec<u8>, String> {
    // big integer arithmetic on 32 bytes: repeatedly (x-1) % 64, (x-1) / 64
    let mut x = *label;
    let is_zero = |x: &[u8; 32]| x.iter().all(|b| *b == 0);
    let mut path = Vec::new();
    while !is_zero(&x) {
        // x -= 1
        for i in (0..32).rev() {
            if x[i] == 0 {
                x[i] = 0xff;
            } else {
                x[i] -= 1;
                break;
            }
        }
        path.push(x[31] & 0x3f);
        // x >>= 6
        let mut carry = 0u16;
        for i in 0..32 {
            let cur = (carry << 8) | x[i] as u16;
            x[i] = (cur >> 6) as u8;
            carry = cur & 0x3f;
        }
        if path.len() > 42 {
            return Err("label decodes to a page deeper than 42".into());
        }
    }
    path.reverse();
    Ok(path)
}

pub fn encode_page_label(path: &[u8]) -> [u8; 32] {
    let mut x = [0u8; 32];
    for c in path {
        // x = x*64 + c + 1
        let mut carry = (*c as u32) + 1;
        for i in (0..32).rev() {
            let cur = (x[i] as u32) * 64 + carry;
            x[i] = (cur & 0xff) as u8;
            carry = cur >> 8;
        }
    }
    x
}

pub fn bucket_hash(seed: &[u8; 16], label: &[u8; 32]) -> u64 {
    let s = u64::from_be_bytes(seed[..8].try_into().unwrap());
    twox_hash::xxhash3_64::Hasher::oneshot_with_seed(s, label)
}

/// Decode the value store (bbn + ln + free lists) and the hash table of an image and check their
/// well-formedness. Returns the decoded structure or the first violated predicate.
pub fn decode_image(img: &DirImage) -> Result<Decoded, String> {
    let mut d = Decoded::default();
    let meta = decode_meta(img.get("meta").ok_or("no meta file")?)?;
    let ln = img.get("ln").ok_or("no ln file")?;
    let bbn = img.get("bbn").ok_or("no bbn file")?;
    if (meta.ln_bump as u64) * PAGE as u64 > ln.len.max(PAGE as u64) && meta.ln_bump > 1 {
        return Err(format!("ln bump {} beyond file length {}", meta.ln_bump, ln.len));
    }
    if (meta.bbn_bump as u64) * PAGE as u64 > bbn.len.max(PAGE as u64) && meta.bbn_bump > 1 {
        return Err(format!("bbn bump {} beyond file length {}", meta.bbn_bump, bbn.len));
    }
    d.ln_free = decode_free_list(ln, meta.ln_freelist_pn, meta.ln_bump, "ln")?;
    d.bbn_free = decode_free_list(bbn, meta.bbn_freelist_pn, meta.bbn_bump, "bbn")?;
    let bbn_tracked: BTreeSet<u32> = d.bbn_free.list_pages.iter().chain(d.bbn_free.entries.iter()).cloned().collect();
    let ln_tracked: BTreeSet<u32> = d.ln_free.list_pages.iter().chain(d.ln_free.entries.iter()).cloned().collect();

    // bottom branch nodes
    let mut seps: Vec<(Key, u32, u32)> = Vec::new(); // separator, leaf pn, bbn pn
    for pn in 1..meta.bbn_bump {
        if bbn_tracked.contains(&pn) {
            continue;
        }
        let p = page(bbn, pn);
        if p.iter().all(|b| *b == 0) {
            continue;
        }
        let b = decode_branch(p, pn)?;
        if std::env::var_os("VERIF_DUMP").is_some() {
            eprintln!("DUMP bbn {pn}: n {} prefix_compressed {} prefix_len {} first {} second {} last {}", b.keys.len(), b.prefix_compressed, b.prefix_len, hex::encode(b.keys[0]), b.keys.get(1).map(hex::encode).unwrap_or_default(), hex::encode(b.keys[b.keys.len() - 1]));
        }
        if std::env::var("VERIF_DUMP").map_or(false, |v| v == "allseps") {
            for (i, k) in b.keys.iter().enumerate() {
                eprintln!("SEP bbn {pn} #{i} {} -> leaf {}", hex::encode(&k[16..]), b.ptrs[i]);
            }
        }
        d.n_bbn += 1;
        let sep_bits = u16le(p, 10 + 2 * (b.keys.len() - 1)) as usize;
        d.max_bbn_body = d.max_bbn_body.max(6 * b.keys.len() + (b.prefix_len + sep_bits + 7) / 8);
        d.bbn_live.insert(pn);
        for w in b.keys.windows(2) {
            if w[0] >= w[1] {
                return Err(format!("bbn page {pn}: separators not strictly increasing"));
            }
        }
        for (k, ptr) in b.keys.iter().zip(b.ptrs.iter()) {
            seps.push((*k, *ptr, pn));
        }
    }
    seps.sort();
    for w in seps.windows(2) {
        if w[0].0 == w[1].0 {
            return Err(format!("separator {} appears in bbn pages {} and {}", hx8(&w[0].0), w[0].2, w[1].2));
        }
    }
    if let Some(first) = seps.first() {
        if first.0 != [0u8; 32] {
            return Err(format!("first separator of the tree is {} not all-zero", hx8(&first.0)));
        }
    }
    // bbn nodes must cover disjoint separator ranges: the separators of one node are contiguous
    {
        let mut last_bbn: Option<u32> = None;
        let mut closed: BTreeSet<u32> = BTreeSet::new();
        for (_, _, b) in &seps {
            if last_bbn != Some(*b) {
                if closed.contains(b) {
                    return Err(format!("bbn page {b}: its separator range interleaves with another node"));
                }
                if let Some(l) = last_bbn {
                    closed.insert(l);
                }
                last_bbn = Some(*b);
            }
        }
    }
    if let Ok(pfx) = std::env::var("VERIF_DUMP") {
        // debugging aid: separators / leaves around a key prefix (hex)
        eprintln!("DUMP meta bumps ln {} bbn {} ; {} separators", meta.ln_bump, meta.bbn_bump, seps.len());
        for (i, (sep, lpn, bpn)) in seps.iter().enumerate() {
            let h = hex::encode(&sep[..8]);
            let near = seps.get(i + 1).map_or(true, |n| hex::encode(&n.0[..8]) >= pfx) && h[..pfx.len().min(h.len())] <= *pfx || h.starts_with(&pfx);
            if near {
                let keys: Vec<String> = decode_leaf(page(ln, *lpn), *lpn).map(|c| c.iter().map(|(k, _)| hex::encode(&k[..6])).collect()).unwrap_or_default();
                eprintln!("DUMP sep {} leaf {lpn} bbn {bpn} keys {:?}", hex::encode(&sep[..10]), keys);
            }
        }
    }
    // leaves
    let mut used_ln: BTreeMap<u32, String> = BTreeMap::new();
    for (i, (sep, lpn, bpn)) in seps.iter().enumerate() {
        if *lpn == 0 || *lpn >= meta.ln_bump {
            return Err(format!("bbn page {bpn}: leaf pointer {lpn} out of range (ln bump {})", meta.ln_bump));
        }
        if ln_tracked.contains(lpn) {
            return Err(format!("leaf page {lpn} is referenced by bbn {bpn} but is on the ln free list"));
        }
        if let Some(prev) = used_ln.insert(*lpn, format!("leaf of {}", hx8(sep))) {
            return Err(format!("ln page {lpn} is used twice ({prev} and leaf of {})", hx8(sep)));
        }
        d.leaf_pages.insert(*lpn);
        let cells = decode_leaf(page(ln, *lpn), *lpn)?;
        {
            let lp = page(ln, *lpn);
            let n = cells.len();
            let first = (u16le(lp, 2 + 32) & 0x7fff) as usize;
            let free = first.saturating_sub(2 + 34 * n);
            if free == 0 {
                d.leaves_exactly_full += 1;
            }
            if free < 8 {
                d.leaves_nearly_full += 1;
            }
        }
        d.n_leaves += 1;
        let next = seps.get(i + 1).map(|s| s.0);
        for (k, c) in cells {
            if k < *sep || next.map_or(false, |n| k >= n) {
                return Err(format!(
                    "key {} in leaf {lpn} (bbn {bpn}) is outside its separator range [{}, {})",
                    crate::util::hx(&k),
                    crate::util::hx(sep),
                    next.map(|n| crate::util::hx(&n)).unwrap_or_else(|| "end".into())
                ));
            }
            let val = match c {
                CellD::Inline(v) => v,
                CellD::Overflow { size, hash, pages } => {
                    let (v, list) = read_overflow(ln, size, &pages, meta.ln_bump)
                        .map_err(|e| format!("key {} in leaf {lpn}: {e}", hx8(&k)))?;
                    for pn in list {
                        if ln_tracked.contains(&pn) {
                            return Err(format!("overflow page {pn} of key {} is on the ln free list", hx8(&k)));
                        }
                        if let Some(prev) = used_ln.insert(pn, format!("overflow page of {}", hx8(&k))) {
                            return Err(format!("ln page {pn} is used twice ({prev} and overflow page of {})", hx8(&k)));
                        }
                        d.n_overflow_pages += 1;
                    }
                    d.n_overflow_values += 1;
                    // the stored hash is checked by the caller (it knows the hasher)
                    d.overflow_hashes.push((k, hash));
                    v
                }
            };
            if d.kv.insert(k, val).is_some() {
                return Err(format!("key {} lives in two leaves", hx8(&k)));
            }
        }
    }
    d.ln_live = used_ln.keys().cloned().collect();

    // hash table
    if let Some(ht) = img.get("ht") {
        let buckets = meta.buckets as u64;
        let meta_pages = (buckets + 4095) / 4096;
        if ht.len != (meta_pages + buckets) * PAGE as u64 {
            return Err(format!("ht file length {} != expected {}", ht.len, (meta_pages + buckets) * PAGE as u64));
        }
        let mut seen: BTreeMap<[u8; 32], u64> = BTreeMap::new();
        let meta_byte = |b: u64| -> u8 { page(ht, (b / 4096) as u32)[(b % 4096) as usize] };
        for b in 0..buckets {
            let mb = meta_byte(b);
            if mb == 0 {
                continue;
            }
            if mb == 0x7f {
                d.ht_tombstones += 1;
                continue;
            }
            if mb & 0x80 == 0 {
                return Err(format!("ht meta byte {mb:#x} of bucket {b} is neither empty, tombstone nor full"));
            }
            d.ht_full += 1;
            let p = page(ht, (meta_pages + b) as u32);
            let label: [u8; 32] = p[PAGE - 32..].try_into().unwrap();
            let elided = u64le(p, PAGE - 40);
            if let Some(other) = seen.insert(label, b) {
                return Err(format!("merkle page with label {} is stored in buckets {other} and {b}", hx8(&label[24..])));
            }
            let h = bucket_hash(&meta.seed, &label);
            if mb != (0x80 | (h >> 57) as u8) {
                return Err(format!("bucket {b}: meta byte {mb:#x} does not match the hash tag of the stored page label"));
            }
            // probe sequence must reach b before any EMPTY byte
            let mut pos = h % buckets;
            let mut step = 0u64;
            let mut ok = false;
            for _ in 0..(buckets * 2 + 16) {
                pos = (pos + step) % buckets;
                step += 1;
                if pos == b {
                    ok = true;
                    break;
                }
                if meta_byte(pos) == 0 {
                    break;
                }
            }
            if !ok {
                return Err(format!("bucket {b}: stored page is not reachable through its probe sequence"));
            }
            let path = decode_page_label(&label).map_err(|e| format!("bucket {b}: {e}"))?;
            d.elided_children += elided.count_ones() as usize;
            d.ht_pages.push(HtPageD {
                bucket: b,
                label,
                path,
                elided,
            });
        }
    }
    d.meta = Some(meta);
    Ok(d)
}

/// Allocation partition of one store file: {1..bump-1} = live ⊎ free-list pages ⊎ free entries.
pub fn check_partition(d: &Decoded) -> Result<(), String> {
    let meta = d.meta.as_ref().unwrap();
    for (what, bump, live, fl) in [
        ("ln", meta.ln_bump, &d.ln_live, &d.ln_free),
        ("bbn", meta.bbn_bump, &d.bbn_live, &d.bbn_free),
    ] {
        let mut owner: BTreeMap<u32, &str> = BTreeMap::new();
        for p in live {
            owner.insert(*p, "live");
        }
        for p in &fl.list_pages {
            if owner.insert(*p, "free-list page").is_some() {
                return Err(format!("{what} page {p} is both live and a free-list page"));
            }
        }
        for p in &fl.entries {
            if owner.insert(*p, "free entry").is_some() {
                return Err(format!("{what} page {p} is free and also in use"));
            }
        }
        for p in 1..bump {
            if !owner.contains_key(&p) {
                return Err(format!(
                    "{what} page {p} (< bump {bump}) is neither in use by the current state nor on the free list (leaked)"
                ));
            }
        }
    }
    Ok(())
}

/// Reference node values at every reachable position of the trie over `kv` (depth, masked path).
pub fn reference_nodes(h: HasherKind, kv: &[(Key, [u8; 32])]) -> HashMap<(u16, Key), Node> {
    fn walk(h: HasherKind, kv: &[(Key, [u8; 32])], depth: usize, path: Key, out: &mut HashMap<(u16, Key), Node>) -> Node {
        let node = match kv.len() {
            0 => TERMINATOR,
            1 => h.leaf(&kv[0].0, &kv[0].1),
            _ => {
                let split = kv.partition_point(|(k, _)| !get_bit(k, depth));
                let mut lp = path;
                set_bit(&mut lp, depth, false);
                let mut rp = path;
                set_bit(&mut rp, depth, true);
                let l = walk(h, &kv[..split], depth + 1, lp, out);
                let r = walk(h, &kv[split..], depth + 1, rp, out);
                h.internal(&l, &r)
            }
        };
        out.insert((depth as u16, path), node);
        node
    }
    let mut out = HashMap::new();
    walk(h, kv, 0, [0u8; 32], &mut out);
    out
}

pub struct MerkleStats {
    pub stored: usize,
    pub expected_pages: usize,
    pub elided_ok: usize,
    pub max_depth: usize,
    pub nodes_compared: usize,
}

/// Merkle predicates of C16 against the model.
pub fn check_merkle(d: &Decoded, img: &DirImage, h: HasherKind, model: &Map) -> Result<MerkleStats, String> {
    let kv = crate::model::kv_hashes(model);
    let nodes = reference_nodes(h, &kv);
    let meta = d.meta.as_ref().unwrap();
    let ht = img.get("ht").ok_or("no ht file")?;
    let meta_pages = (meta.buckets as u64 + 4095) / 4096;
    let prefix_of = |path: &[u8]| -> Key {
        let mut k = [0u8; 32];
        for (i, c) in path.iter().enumerate() {
            for b in 0..6 {
                set_bit(&mut k, i * 6 + b, (c >> (5 - b)) & 1 == 1);
            }
        }
        k
    };
    let is_internal = |n: &Node| n[0] & 0x80 == 0 && *n != TERMINATOR;
    // expected pages: root page iff root internal; page with path P (len k >= 1) iff node at depth 6k is internal
    let page_expected = |path: &[u8]| -> bool {
        let depth = path.len() * 6;
        if depth > 252 {
            return false;
        }
        nodes.get(&(depth as u16, prefix_of(path))).map_or(false, |n| is_internal(n))
    };
    let stored: BTreeMap<Vec<u8>, &HtPageD> = d.ht_pages.iter().map(|p| (p.path.clone(), p)).collect();
    let mut stats = MerkleStats {
        stored: stored.len(),
        expected_pages: 0,
        elided_ok: 0,
        max_depth: 0,
        nodes_compared: 0,
    };
    for (path, pg) in &stored {
        if encode_page_label(path) != pg.label {
            return Err(format!(
                "bucket {}: page label {} is not the documented encoding of any page id (decodes to path {:?} which encodes to {})",
                pg.bucket,
                hx8(&pg.label[24..]),
                path,
                hx8(&encode_page_label(path)[24..])
            ));
        }
        if !page_expected(path) {
            return Err(format!(
                "merkle page {:?} (bucket {}) is stored but not reachable in the reference trie",
                path, pg.bucket
            ));
        }
        stats.max_depth = stats.max_depth.max(path.len());
        let p = page(ht, (meta_pages + pg.bucket) as u32);
        let base = prefix_of(path);
        for d_in in 1..=6usize {
            for idx in 0..(1usize << d_in) {
                let slot = (1usize << d_in) - 2 + idx;
                let mut pos = base;
                for b in 0..d_in {
                    set_bit(&mut pos, path.len() * 6 + b, (idx >> (d_in - 1 - b)) & 1 == 1);
                }
                if let Some(want) = nodes.get(&((path.len() * 6 + d_in) as u16, pos)) {
                    let got: Node = p[slot * 32..slot * 32 + 32].try_into().unwrap();
                    stats.nodes_compared += 1;
                    if got != *want {
                        return Err(format!(
                            "merkle page {:?} (bucket {}): node slot {slot} (depth {} in page) holds {} but the reference trie has {}",
                            path,
                            pg.bucket,
                            d_in,
                            hx8(&got),
                            hx8(want)
                        ));
                    }
                }
            }
        }
    }
    // every expected page is stored, or absent with the elided mark in its (stored) parent
    let mut expected: Vec<Vec<u8>> = Vec::new();
    for ((depth, pos), n) in &nodes {
        if *depth as usize % 6 == 0 && (*depth as usize) <= 252 && is_internal(n) {
            let k = *depth as usize / 6;
            let mut path = Vec::with_capacity(k);
            for i in 0..k {
                let mut c = 0u8;
                for b in 0..6 {
                    c = (c << 1) | get_bit(pos, i * 6 + b) as u8;
                }
                path.push(c);
            }
            expected.push(path);
        }
    }
    stats.expected_pages = expected.len();
    for path in expected {
        if stored.contains_key(&path) {
            continue;
        }
        if path.len() < 2 {
            return Err(format!("merkle page {:?} is reachable but not stored (pages above depth 2 are never elided)", path));
        }
        // find the nearest stored ancestor; the child leading towards `path` must be marked elided
        let mut anc = path.clone();
        let mut child;
        loop {
            child = anc.pop().unwrap();
            if stored.contains_key(&anc) || anc.is_empty() {
                break;
            }
        }
        match stored.get(&anc) {
            Some(pg) => {
                if (pg.elided >> child) & 1 != 1 {
                    return Err(format!(
                        "merkle page {:?} is reachable, not stored, and its nearest stored ancestor {:?} does not mark child {child} elided",
                        path, anc
                    ));
                }
                stats.elided_ok += 1;
            }
            None => return Err(format!("merkle page {:?} is reachable but neither it nor any ancestor is stored", path)),
        }
    }
    Ok(stats)
}

/// Values predicate: decoded key-value map equals the model; overflow hashes are right.
pub fn check_values(d: &Decoded, model: &Map) -> Result<(), String> {
    for (k, h) in &d.overflow_hashes {
        if let Some(v) = model.get(k) {
            if v.vh != *h && v.bytes.len() > 1332 {
                return Err(format!("overflow cell of key {} stores a value hash that is not the hash of its value", hx8(k)));
            }
        }
    }
    if d.kv.len() != model.len() {
        let extra: Vec<String> = d.kv.keys().filter(|k| !model.contains_key(*k)).take(3).map(|k| hx8(k)).collect();
        let missing: Vec<String> = model.keys().filter(|k| !d.kv.contains_key(*k)).take(3).map(|k| hx8(k)).collect();
        return Err(format!(
            "decoded value store holds {} keys, model {} (extra e.g. {:?}, missing e.g. {:?})",
            d.kv.len(),
            model.len(),
            extra,
            missing
        ));
    }
    for (k, v) in model.iter() {
        match d.kv.get(k) {
            None => return Err(format!("key {} of the model has no cell on disk", hx8(k))),
            Some(dv) if dv[..] != v.bytes[..] => return Err(format!("key {} decodes to a different value", hx8(k))),
            _ => {}
        }
    }
    Ok(())
}
