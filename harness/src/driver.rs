//! The only code that touches the nomt API. Every call runs under `catch_unwind`; a panic or an
//! `Err` is turned into a [`Fail`] so that callers can judge it against their oracle.

use crate::model::{MOp, Map};
use crate::reftrie::{HasherKind, Node};
use crate::util::Key;
use nomt::{
    hasher::{Blake3Hasher, Sha2Hasher},
    FinishedSession, HashAlgorithm, KeyReadWrite, Nomt, Options, Overlay, Session, SessionParams,
    Witness, WitnessMode,
};
use serde::{Deserialize, Serialize};
use std::panic::{catch_unwind, AssertUnwindSafe};
use std::path::{Path, PathBuf};
use std::sync::Mutex;

pub trait HK: 'static + Send + Sync {
    type N: HashAlgorithm + Send + Sync + 'static;
    const KIND: HasherKind;
}
pub struct B3;
pub struct S2;
impl HK for B3 {
    type N = Blake3Hasher;
    const KIND: HasherKind = HasherKind::Blake3;
}
impl HK for S2 {
    type N = Sha2Hasher;
    const KIND: HasherKind = HasherKind::Sha2;
}

/// A node hasher with a labelling scheme that is NOT the MSB one (see `HasherKind::TailLabel`); pure-core checks only.
pub struct TailLabelHasher;
impl nomt_core::hasher::ValueHasher for TailLabelHasher {
    fn hash_value(value: &[u8]) -> [u8; 32] {
        *blake3::hash(value).as_bytes()
    }
}
impl nomt_core::hasher::NodeHasher for TailLabelHasher {
    fn hash_leaf(data: &nomt_core::trie::LeafData) -> [u8; 32] {
        HasherKind::TailLabel.leaf(&data.key_path, &data.value_hash)
    }
    fn hash_internal(data: &nomt_core::trie::InternalData) -> [u8; 32] {
        HasherKind::TailLabel.internal(&data.left, &data.right)
    }
    fn node_kind(node: &nomt_core::trie::Node) -> nomt_core::trie::NodeKind {
        use nomt_core::trie::NodeKind;
        if *node == [0u8; 32] {
            NodeKind::Terminator
        } else if node[31] & 3 == 1 {
            NodeKind::Leaf
        } else {
            NodeKind::Internal
        }
    }
}
pub struct TL;
impl HK for TL {
    type N = TailLabelHasher;
    const KIND: HasherKind = HasherKind::TailLabel;
}

#[derive(Clone, Copy, Debug, PartialEq, Eq, Serialize, Deserialize)]
pub enum Fs {
    Tmpfs,
    Ext4,
}

#[derive(Clone, Debug, Serialize, Deserialize, PartialEq, Eq)]
pub struct Cfg {
    pub hasher: HasherKind,
    pub commit_concurrency: usize,
    pub io_workers: usize,
    pub warm_up: bool,
    pub page_cache_mib: usize,
    pub leaf_cache_mib: usize,
    pub upper_levels: usize,
    pub prepopulate: bool,
    pub buckets: u32,
    pub seed: [u8; 16],
    pub preallocate: bool,
    pub rollback: bool,
    pub max_log: u32,
    /// Rollback segment size override in records (0 = default 64 MiB).
    pub seg_records: u32,
    pub fs: Fs,
}

impl Cfg {
    pub fn default_small() -> Self {
        Cfg {
            hasher: HasherKind::Blake3,
            commit_concurrency: 1,
            io_workers: 1,
            warm_up: false,
            page_cache_mib: 8,
            leaf_cache_mib: 8,
            upper_levels: 2,
            prepopulate: false,
            buckets: 4000,
            seed: [7; 16],
            preallocate: false,
            rollback: false,
            max_log: 100,
            seg_records: 0,
            fs: Fs::Tmpfs,
        }
    }
    pub fn options(&self, dir: &Path) -> Options {
        let mut o = Options::new();
        o.path(dir);
        o.commit_concurrency(self.commit_concurrency);
        o.io_workers(self.io_workers);
        o.warm_up(self.warm_up);
        o.page_cache_size(self.page_cache_mib);
        o.leaf_cache_size(self.leaf_cache_mib);
        o.page_cache_upper_levels(self.upper_levels);
        o.prepopulate_page_cache(self.prepopulate);
        o.hashtable_buckets(self.buckets);
        o.bitbox_seed(self.seed);
        o.preallocate_ht(self.preallocate);
        o.rollback(self.rollback);
        o.max_rollback_log_len(self.max_log);
        o
    }
    pub fn brief(&self) -> String {
        format!(
            "{:?} cc={} io={} wu={} pc={} lc={} ul={} pp={} b={} rb={}/{} seg={} {:?}",
            self.hasher,
            self.commit_concurrency,
            self.io_workers,
            self.warm_up as u8,
            self.page_cache_mib,
            self.leaf_cache_mib,
            self.upper_levels,
            self.prepopulate as u8,
            self.buckets,
            self.rollback as u8,
            self.max_log,
            self.seg_records,
            self.fs
        )
    }
}

#[derive(Clone, Debug, PartialEq, Eq)]
pub enum FailKind {
    Panic,
    Err,
}

#[derive(Clone, Debug)]
pub struct Fail {
    pub kind: FailKind,
    pub what: String,
    pub msg: String,
}

impl Fail {
    pub fn is_bucket_exhaustion(&self) -> bool {
        self.msg.contains("bucket exhaustion")
    }
    pub fn sig(&self) -> String {
        match self.kind {
            FailKind::Panic => format!("panic in {}: {}", self.what, self.msg),
            FailKind::Err => format!("error from {}: {}", self.what, self.msg),
        }
    }
}

static PANICS: Mutex<Vec<String>> = Mutex::new(Vec::new());
/// Whether `Db::open` tolerates (and counts) a briefly still-held directory lock.
pub static LOCK_RETRY: std::sync::atomic::AtomicBool = std::sync::atomic::AtomicBool::new(false);
pub static LOCK_RETRIES: std::sync::atomic::AtomicU64 = std::sync::atomic::AtomicU64::new(0);
pub static LOCK_RETRY_MAX_MS: std::sync::atomic::AtomicU64 = std::sync::atomic::AtomicU64::new(0);

/// Install a panic hook that records location + message instead of printing.
pub fn install_panic_hook() {
    std::panic::set_hook(Box::new(|info| {
        let loc = info
            .location()
            .map(|l| format!("{}:{}", l.file(), l.line()))
            .unwrap_or_default();
        let msg = if let Some(s) = info.payload().downcast_ref::<&str>() {
            s.to_string()
        } else if let Some(s) = info.payload().downcast_ref::<String>() {
            s.clone()
        } else {
            "<non-string payload>".into()
        };
        if std::env::var_os("VERIF_PANIC_VERBOSE").is_some() {
            eprintln!("PANIC {loc} {msg}\n{}", std::backtrace::Backtrace::force_capture());
        }
        let mut p = PANICS.lock().unwrap_or_else(|e| e.into_inner());
        if p.len() < 64 {
            p.push(format!("{loc} \"{}\"", msg.chars().take(200).collect::<String>()));
        }
    }));
}
pub fn take_panics() -> Vec<String> {
    std::mem::take(&mut *PANICS.lock().unwrap_or_else(|e| e.into_inner()))
}

pub fn guard<T>(what: &str, f: impl FnOnce() -> anyhow::Result<T>) -> Result<T, Fail> {
    let _ = take_panics();
    match catch_unwind(AssertUnwindSafe(f)) {
        Ok(Ok(v)) => Ok(v),
        Ok(Err(e)) => Err(Fail {
            kind: FailKind::Err,
            what: what.into(),
            msg: format!("{e:#}").chars().take(300).collect(),
        }),
        Err(_) => {
            let p = take_panics();
            Err(Fail {
                kind: FailKind::Panic,
                what: what.into(),
                msg: p.first().cloned().unwrap_or_else(|| "<unknown>".into()),
            })
        }
    }
}

pub struct Db<H: HK> {
    pub nomt: Nomt<H::N>,
    pub dir: PathBuf,
}

#[derive(Clone, Default)]
pub struct CommitOpts {
    pub witness: bool,
    /// Keys to call `warm_up` on.
    pub warm: Vec<Key>,
    /// Keys to call `preserve_prior_value` on.
    pub preserve: Vec<Key>,
}

pub struct Finished {
    pub fs: FinishedSession,
    pub root: Node,
    pub prev_root: Node,
    pub witness: Option<Witness>,
}

pub fn to_actuals(view: &Map, batch: &[(Key, MOp)]) -> Vec<(Key, KeyReadWrite)> {
    batch
        .iter()
        .map(|(k, op)| {
            let prior = || view.get(k).map(|v| v.bytes.as_ref().clone());
            let rw = match op {
                MOp::Read => KeyReadWrite::Read(prior()),
                MOp::Write(v) => KeyReadWrite::Write(v.as_ref().map(|b| b.as_ref().clone())),
                MOp::ReadThenWrite(v) => {
                    KeyReadWrite::ReadThenWrite(prior(), v.as_ref().map(|b| b.as_ref().clone()))
                }
            };
            (*k, rw)
        })
        .collect()
}

impl<H: HK> Db<H> {
    pub fn open(dir: &Path, cfg: &Cfg) -> Result<Self, Fail> {
        assert_eq!(cfg.hasher, H::KIND);
        nomt::verif::set_rollback_segment_size(cfg.seg_records as u64 * 4096);
        // FX-C20-1 (lock released asynchronously after drop when a warm-up worker was still exiting)
        // is repaired; the bounded wait below is off by default (LOCK_RETRY) and only kept as a
        // debugging aid.
        let t0 = std::time::Instant::now();
        loop {
            match guard("Nomt::open", || Nomt::<H::N>::open(cfg.options(dir))) {
                Ok(nomt) => {
                    return Ok(Db {
                        nomt,
                        dir: dir.to_path_buf(),
                    })
                }
                Err(f)
                    if f.msg.contains("Failed to lock directory")
                        && LOCK_RETRY.load(std::sync::atomic::Ordering::Relaxed)
                        && t0.elapsed().as_millis() < 5000 =>
                {
                    LOCK_RETRIES.fetch_add(1, std::sync::atomic::Ordering::Relaxed);
                    std::thread::sleep(std::time::Duration::from_millis(1));
                }
                Err(f) => return Err(f),
            }
        }
    }
    pub fn close(self) -> Result<(), Fail> {
        guard("drop(Nomt)", move || {
            drop(self.nomt);
            Ok(())
        })
    }
    pub fn root(&self) -> Node {
        self.nomt.root().into_inner()
    }
    pub fn seqn(&self) -> u32 {
        self.nomt.sync_seqn()
    }
    pub fn read(&self, k: &Key) -> Result<Option<Vec<u8>>, Fail> {
        guard("Nomt::read", || self.nomt.read(*k))
    }
    pub fn begin(&self, overlays: &[&Overlay], witness: bool) -> Result<Session<H::N>, Fail> {
        guard("begin_session", || {
            let params = SessionParams::default().witness_mode(if witness {
                WitnessMode::read_write()
            } else {
                WitnessMode::disabled()
            });
            let params = params
                .overlay(overlays.iter().copied())
                .map_err(|e| anyhow::anyhow!("InvalidAncestors: {e:?}"))?;
            Ok(self.nomt.begin_session(params))
        })
    }
    /// Try building session params on a chain; only reports whether the chain was accepted.
    pub fn chain_accepted(&self, overlays: &[&Overlay]) -> Result<bool, Fail> {
        guard("SessionParams::overlay", || {
            Ok(SessionParams::default()
                .overlay(overlays.iter().copied())
                .is_ok())
        })
    }
    pub fn finish(
        &self,
        sess: Session<H::N>,
        view: &Map,
        batch: &[(Key, MOp)],
        opts: &CommitOpts,
    ) -> Result<Finished, Fail> {
        let actuals = to_actuals(view, batch);
        guard("Session::finish", move || {
            for k in &opts.warm {
                sess.warm_up(*k);
            }
            for k in &opts.preserve {
                sess.preserve_prior_value(*k);
            }
            let prev_root = sess.prev_root().into_inner();
            let mut fs = sess.finish(actuals)?;
            let witness = fs.take_witness();
            let root = fs.root().into_inner();
            Ok(Finished {
                fs,
                root,
                prev_root,
                witness,
            })
        })
    }
    pub fn commit_finished(&self, fs: FinishedSession) -> Result<(), Fail> {
        guard("FinishedSession::commit", move || fs.commit(&self.nomt))
    }
    pub fn try_commit_finished(
        &self,
        fs: FinishedSession,
    ) -> Result<Option<FinishedSession>, Fail> {
        guard("FinishedSession::try_commit_nonblocking", move || {
            fs.try_commit_nonblocking(&self.nomt)
        })
    }
    pub fn commit_overlay(&self, o: Overlay) -> Result<(), Fail> {
        guard("Overlay::commit", move || o.commit(&self.nomt))
    }
    pub fn try_commit_overlay(&self, o: Overlay) -> Result<Option<Overlay>, Fail> {
        guard("Overlay::try_commit_nonblocking", move || {
            o.try_commit_nonblocking(&self.nomt)
        })
    }
    pub fn rollback(&self, n: usize) -> Result<(), Fail> {
        guard("Nomt::rollback", || self.nomt.rollback(n))
    }
    /// Plain blocking session commit of one batch.
    pub fn commit_batch(
        &self,
        view: &Map,
        batch: &[(Key, MOp)],
        opts: &CommitOpts,
    ) -> Result<(Node, Option<Witness>), Fail> {
        let sess = self.begin(&[], opts.witness)?;
        let f = self.finish(sess, view, batch, opts)?;
        let (root, w) = (f.root, f.witness);
        self.commit_finished(f.fs)?;
        Ok((root, w))
    }
}

pub fn overlay_of(f: Finished) -> Result<Overlay, Fail> {
    guard("into_overlay", move || Ok(f.fs.into_overlay()))
}
