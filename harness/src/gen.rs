//! Generators (proptest strategies) for keys, value lengths, batches, configurations and histories,
//! plus the *resolver* that turns an abstract batch spec into a concrete sorted batch relative to
//! the model state at interpretation time (so every shrunk history stays valid).

use crate::driver::{Cfg, Fs};
use crate::model::{MOp, Map};
use crate::reftrie::HasherKind;
use crate::util::{get_bit, pick, set_bit, value_bytes, Key, SplitMix};
use proptest::prelude::*;
use serde::{Deserialize, Serialize};
use std::collections::BTreeMap;
use std::sync::Arc;

pub const MAX_LEAF_VALUE: usize = 1332;
pub const OVERFLOW_BODY: usize = 4092;

#[derive(Clone, Debug, Serialize, Deserialize, PartialEq, Eq)]
pub enum Suffix {
    Rand(u64),
    Zero,
    Ones,
    Seq(u16),
    /// The key `Rand(s)` gives, with its last `n` (1..=8) bits inverted: a twin sharing 256 - n bits.
    Twin(u64, u8),
}

#[derive(Clone, Debug, Serialize, Deserialize, PartialEq, Eq)]
pub struct KeyRecipe {
    pub cluster: u8,
    pub plen: u8,
    pub suffix: Suffix,
}

#[derive(Clone, Debug, Serialize, Deserialize, PartialEq, Eq)]
pub enum KeySel {
    /// A key currently in the view (monotone index); falls back to a recipe when the view is empty.
    Existing(u16),
    New(KeyRecipe),
    /// An existing key with bit `bit` flipped; tail 0 = keep, 1 = zero the rest, 2 = randomise.
    Near { of: u16, bit: u8, tail: u8 },
    Literal(String),
}

#[derive(Clone, Copy, Debug, Serialize, Deserialize, PartialEq, Eq)]
pub enum OpKind {
    Read,
    Write,
    Delete,
    ReadWrite,
    ReadDelete,
}

#[derive(Clone, Debug, Serialize, Deserialize, PartialEq, Eq)]
pub struct Entry {
    pub key: KeySel,
    pub kind: OpKind,
    pub vlen: u32,
}

#[derive(Clone, Debug, Serialize, Deserialize, PartialEq, Eq)]
pub enum Bulk {
    Insert {
        seed: u64,
        n: u16,
        cluster: u8,
        plen: u8,
        vlo: u32,
        vhi: u32,
    },
    Delete {
        seed: u64,
        permille: u16,
    },
    Rewrite {
        seed: u64,
        permille: u16,
        vlo: u32,
        vhi: u32,
    },
}

#[derive(Clone, Debug, Serialize, Deserialize, PartialEq, Eq)]
pub struct BatchSpec {
    pub entries: Vec<Entry>,
    pub bulk: Option<Bulk>,
}

/// Cluster prefix: first bits of a hash of (salt, cluster).
fn cluster_prefix(salt: u64, cluster: u8) -> Key {
    SplitMix(salt ^ (0xC1u64 << 56) ^ cluster as u64).key()
}

pub fn make_key(salt: u64, r: &KeyRecipe) -> Key {
    let mut k = cluster_prefix(salt, r.cluster);
    let plen = r.plen as usize;
    let suffix: Key = match &r.suffix {
        Suffix::Rand(s) => SplitMix(*s).key(),
        Suffix::Zero => [0u8; 32],
        Suffix::Ones => [0xff; 32],
        Suffix::Seq(n) => {
            let mut z = [0u8; 32];
            z[30..32].copy_from_slice(&n.to_be_bytes());
            z
        }
        Suffix::Twin(s, n) => {
            let mut z = SplitMix(*s).key();
            let n = (*n).clamp(1, 8);
            z[31] ^= ((1u16 << n) - 1) as u8;
            z
        }
    };
    for i in plen..256 {
        set_bit(&mut k, i, get_bit(&suffix, i));
    }
    k
}

pub fn resolve_key(salt: u64, sel: &KeySel, view_keys: &[Key]) -> Key {
    match sel {
        KeySel::Existing(i) => {
            if view_keys.is_empty() {
                make_key(
                    salt,
                    &KeyRecipe {
                        cluster: 0,
                        plen: 0,
                        suffix: Suffix::Rand(*i as u64),
                    },
                )
            } else {
                view_keys[pick(*i, view_keys.len())]
            }
        }
        KeySel::New(r) => make_key(salt, r),
        KeySel::Near { of, bit, tail } => {
            if view_keys.is_empty() {
                return make_key(
                    salt,
                    &KeyRecipe {
                        cluster: 1,
                        plen: *bit,
                        suffix: Suffix::Rand(*of as u64),
                    },
                );
            }
            let mut k = view_keys[pick(*of, view_keys.len())];
            let b = *bit as usize;
            let v = get_bit(&k, b);
            set_bit(&mut k, b, !v);
            match tail {
                1 => {
                    for i in b + 1..256 {
                        set_bit(&mut k, i, false)
                    }
                }
                2 => {
                    let r = SplitMix(salt ^ ((*of as u64) << 8) ^ *bit as u64).key();
                    for i in b + 1..256 {
                        set_bit(&mut k, i, get_bit(&r, i))
                    }
                }
                _ => {}
            }
            k
        }
        KeySel::Literal(h) => crate::util::unhx32(h),
    }
}

/// Budget for generated value bytes in one case.
pub struct Budget {
    pub left: usize,
}
impl Budget {
    pub fn take(&mut self, want: usize) -> usize {
        if want <= self.left {
            self.left -= want;
            want
        } else {
            // budget exhausted: small values stay allowed
            want.min(32)
        }
    }
}

fn val(key: &Key, ver: u32, len: usize) -> Option<Arc<Vec<u8>>> {
    Some(Arc::new(value_bytes(key, ver, len)))
}

/// Turn a spec into a sorted, duplicate-free batch of model ops against `view`.
pub fn resolve_batch(
    salt: u64,
    spec: &BatchSpec,
    view: &Map,
    ver: u32,
    budget: &mut Budget,
) -> Vec<(Key, MOp)> {
    let view_keys: Vec<Key> = view.keys().cloned().collect();
    let mut out: BTreeMap<Key, MOp> = BTreeMap::new();
    if let Some(b) = &spec.bulk {
        match b {
            Bulk::Insert {
                seed,
                n,
                cluster,
                plen,
                vlo,
                vhi,
            } => {
                let mut s = SplitMix(*seed);
                for _ in 0..*n {
                    let k = make_key(
                        salt,
                        &KeyRecipe {
                            cluster: *cluster,
                            plen: *plen,
                            suffix: Suffix::Rand(s.next()),
                        },
                    );
                    let len = *vlo as usize + s.below((*vhi - *vlo + 1) as u64) as usize;
                    let len = budget.take(len);
                    out.insert(k, MOp::Write(val(&k, ver, len)));
                }
            }
            Bulk::Delete { seed, permille } => {
                let mut s = SplitMix(*seed);
                for k in &view_keys {
                    if s.below(1000) < *permille as u64 {
                        out.insert(
                            *k,
                            if s.below(2) == 0 {
                                MOp::Write(None)
                            } else {
                                MOp::ReadThenWrite(None)
                            },
                        );
                    }
                }
            }
            Bulk::Rewrite {
                seed,
                permille,
                vlo,
                vhi,
            } => {
                let mut s = SplitMix(*seed);
                for k in &view_keys {
                    if s.below(1000) < *permille as u64 {
                        let len = *vlo as usize + s.below((*vhi - *vlo + 1) as u64) as usize;
                        let len = budget.take(len);
                        out.insert(*k, MOp::Write(val(k, ver, len)));
                    }
                }
            }
        }
    }
    for e in &spec.entries {
        let k = resolve_key(salt, &e.key, &view_keys);
        let op = match e.kind {
            OpKind::Read => MOp::Read,
            OpKind::Write => MOp::Write(val(&k, ver, budget.take(e.vlen as usize))),
            OpKind::Delete => MOp::Write(None),
            OpKind::ReadWrite => MOp::ReadThenWrite(val(&k, ver, budget.take(e.vlen as usize))),
            OpKind::ReadDelete => MOp::ReadThenWrite(None),
        };
        out.insert(k, op);
    }
    out.into_iter().collect()
}

// ------------------------------------------------------------------ strategies

pub fn plen_strategy() -> impl Strategy<Value = u8> {
    prop_oneof![
        4 => 0u8..=255,
        3 => prop::sample::select(vec![5u8, 6, 7, 11, 12, 13, 17, 18, 19, 23, 24, 25]),
        2 => 240u8..=255,
        2 => prop::sample::select(vec![8u8, 16, 32, 64, 128, 248]),
        2 => 0u8..=12,
    ]
}

pub fn suffix_strategy() -> impl Strategy<Value = Suffix> {
    prop_oneof![
        6 => any::<u64>().prop_map(Suffix::Rand),
        1 => Just(Suffix::Zero),
        1 => Just(Suffix::Ones),
        2 => (0u16..64).prop_map(Suffix::Seq),
    ]
}

pub fn recipe_strategy() -> impl Strategy<Value = KeyRecipe> {
    (0u8..4, plen_strategy(), suffix_strategy()).prop_map(|(cluster, plen, suffix)| KeyRecipe {
        cluster,
        plen,
        suffix,
    })
}

pub fn keysel_strategy() -> impl Strategy<Value = KeySel> {
    prop_oneof![
        4 => any::<u16>().prop_map(KeySel::Existing),
        5 => recipe_strategy().prop_map(KeySel::New),
        2 => (any::<u16>(), any::<u8>(), 0u8..3).prop_map(|(of, bit, tail)| KeySel::Near { of, bit, tail }),
        1 => prop::sample::select(vec![[0u8; 32], [0xff; 32]]).prop_map(|k| KeySel::Literal(hex::encode(k))),
    ]
}

pub fn vlen_strategy() -> impl Strategy<Value = u32> {
    prop_oneof![
        3 => Just(0u32),
        30 => 1u32..=32,
        20 => 33u32..=400,
        8 => 401u32..=1331,
        5 => Just(1332u32),
        5 => Just(1333u32),
        3 => 1334u32..=4091,
        2 => Just(4092u32),
        2 => Just(4093u32),
        2 => 4094u32..=20000,
        1 => Just(15 * 4092u32),
        1 => Just(15 * 4092u32 + 1),
        1 => (16 * 4092u32 - 8)..=(16 * 4092u32),
        1 => 65530u32..=65540,
        1 => Just(70000u32),
    ]
}

/// Small values only (for checks where value size is irrelevant).
pub fn vlen_small() -> impl Strategy<Value = u32> {
    prop_oneof![1 => Just(0u32), 10 => 1u32..=64, 1 => Just(1333u32)]
}

pub fn opkind_strategy() -> impl Strategy<Value = OpKind> {
    prop_oneof![
        2 => Just(OpKind::Read),
        5 => Just(OpKind::Write),
        2 => Just(OpKind::Delete),
        2 => Just(OpKind::ReadWrite),
        1 => Just(OpKind::ReadDelete),
    ]
}

pub fn entry_strategy(vlen: BoxedStrategy<u32>) -> impl Strategy<Value = Entry> {
    (keysel_strategy(), opkind_strategy(), vlen).prop_map(|(key, kind, vlen)| Entry {
        key,
        kind,
        vlen,
    })
}

pub fn bulk_strategy(max_n: u16) -> impl Strategy<Value = Bulk> {
    let vrange = prop_oneof![
        3 => Just((1u32, 64u32)),
        3 => Just((1200u32, 1332u32)),
        1 => Just((1300u32, 1400u32)),
        1 => Just((0u32, 5000u32)),
        1 => Just((300u32, 700u32)),
    ];
    let huge = if max_n >= 4000 { 1 } else { 0 };
    prop_oneof![
        5 => (any::<u64>(), 1u16..=max_n.min(3999), 0u8..4, plen_strategy(), vrange.clone()).prop_map(
            |(seed, n, cluster, plen, (vlo, vhi))| Bulk::Insert { seed, n, cluster, plen, vlo, vhi }
        ),
        // many leaves: thousands of ~1.3 KiB values (free lists spanning several pages after deletion)
        huge => (any::<u64>(), 4000u16..=max_n.max(4000), 0u8..4, prop::sample::select(vec![0u8, 0, 3, 9])).prop_map(
            |(seed, n, cluster, plen)| Bulk::Insert { seed, n, cluster, plen, vlo: 1200, vhi: 1332 }
        ),
        3 => (any::<u64>(), prop_oneof![1u16..=1000, Just(1000u16), Just(900u16)])
            .prop_map(|(seed, permille)| Bulk::Delete { seed, permille }),
        2 => (any::<u64>(), 1u16..=1000, vrange)
            .prop_map(|(seed, permille, (vlo, vhi))| Bulk::Rewrite { seed, permille, vlo, vhi }),
    ]
}

pub fn batch_strategy(
    max_entries: usize,
    bulk_n: u16,
    vlen: BoxedStrategy<u32>,
) -> impl Strategy<Value = BatchSpec> {
    (
        prop::collection::vec(entry_strategy(vlen), 0..=max_entries),
        prop::option::weighted(if bulk_n > 0 { 0.5 } else { 0.0 }, bulk_strategy(bulk_n.max(1))),
    )
        .prop_map(|(entries, bulk)| BatchSpec { entries, bulk })
}

pub fn cfg_strategy(rollback: BoxedStrategy<bool>, ext4_weight: u32) -> impl Strategy<Value = Cfg> {
    (
        (
            prop::sample::select(vec![HasherKind::Blake3, HasherKind::Blake3, HasherKind::Sha2]),
            prop::sample::select(vec![1usize, 1, 2, 3, 4, 5, 7, 8, 16, 33, 64, 100]),
            1usize..=3,
            any::<bool>(),
            prop::sample::select(vec![1usize, 2, 8]),
            prop::sample::select(vec![0usize, 1, 8]),
            0usize..=3,
            any::<bool>(),
        ),
        (
            prop_oneof![
                3 => prop::sample::select(vec![4000u32, 6000, 64000]),
                2 => 2000u32..9000,
            ],
            any::<[u8; 16]>(),
            prop::bool::weighted(0.1),
            rollback,
            prop::sample::select(vec![1u32, 1, 2, 3, 5, 100]),
            prop::sample::select(vec![0u32, 0, 1, 2, 3]),
            prop_oneof![
                (100 - ext4_weight) => Just(Fs::Tmpfs),
                ext4_weight => Just(Fs::Ext4),
            ],
        ),
    )
        .prop_map(
            |(
                (hasher, cc, io, warm_up, pc, lc, ul, pp),
                (buckets, seed, preallocate, rollback, max_log, seg_records, fs),
            )| Cfg {
                hasher,
                commit_concurrency: cc,
                io_workers: io,
                warm_up,
                page_cache_mib: pc,
                leaf_cache_mib: lc,
                upper_levels: ul,
                prepopulate: pp,
                buckets,
                seed,
                preallocate,
                rollback,
                max_log,
                seg_records,
                fs,
            },
        )
}

/// Runtime-tunable part of a configuration (what may change across a reopen).
pub fn retune(base: &Cfg, other: &Cfg) -> Cfg {
    Cfg {
        hasher: base.hasher,
        buckets: base.buckets,
        seed: base.seed,
        preallocate: base.preallocate,
        rollback: base.rollback,
        max_log: base.max_log,
        seg_records: base.seg_records,
        fs: base.fs,
        ..other.clone()
    }
}
