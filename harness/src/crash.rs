//! Crash / power-loss / fault engines (C03, C04, C14) built on `iosim`.
//!
//! A case = a generated history whose *last step* is the operation under test. The prefix runs with
//! the recorder feeding a shadow file system; the operation under test is traced, and every event
//! boundary of it yields synthesised directory images which are opened with `Nomt::open` and judged
//! against the model's pre / post state.

use crate::driver::{Cfg, CommitOpts, Db, Fs, HK};
use crate::hist::{self, CaseInfo, History, Obs, Runner, Scratch, Step, StepOutcome, Violation};
use crate::iosim::{self, CrashPolicy, DirImage, Ev, Kind, PowerPolicy, Recorder, Shadow};
use crate::model::{root_of, MOp, Model};
use crate::util::{hx8, Key, SplitMix};
use serde::{Deserialize, Serialize};
use std::collections::{BTreeMap, BTreeSet};
use std::path::Path;
use std::sync::Arc;

#[derive(Clone, Debug, Serialize, Deserialize, PartialEq, Eq)]
pub struct FaultCase {
    pub hist: History,
    pub choice_seed: u64,
}

#[derive(Clone, Copy, PartialEq, Eq, Debug)]
pub enum Mode {
    Crash,
    Power,
}

fn infra(msg: impl Into<String>) -> Violation {
    Violation {
        step: 0,
        msg: format!("INFRA: {}", msg.into()),
    }
}

fn keep_all_image(s: &Shadow) -> DirImage {
    let mut p = PowerPolicy {
        mode: 1,
        class: "",
        rng: SplitMix(0),
    };
    s.image(&mut p)
}

/// Shadow "everything applied" must equal the real directory at quiescent points.
pub fn completeness_check(s: &Shadow, dir: &Path) -> Result<(), Violation> {
    if s.in_flight() != 0 {
        return Err(infra(format!("{} operations still in flight at a quiescent point", s.in_flight())));
    }
    let want = iosim::read_dir_image(dir).map_err(|e| infra(format!("read dir: {e}")))?;
    let got = keep_all_image(s);
    let names: BTreeSet<&String> = want.keys().chain(got.keys()).collect();
    for n in names {
        match (want.get(n), got.get(n)) {
            (Some(a), Some(b)) => {
                if !a.normalized_eq(b) {
                    return Err(infra(format!(
                        "shadow file system differs from the real file '{n}' (len {} vs {}): an I/O site is not instrumented",
                        b.len, a.len
                    )));
                }
            }
            (a, b) => {
                return Err(infra(format!(
                    "file '{n}' real={} shadow={}: an I/O site is not instrumented",
                    a.is_some(),
                    b.is_some()
                )))
            }
        }
    }
    Ok(())
}

#[derive(Clone, Copy, PartialEq, Eq, Debug)]
pub enum Which {
    Pre,
    Post,
}

pub struct ImgCtx<'a> {
    pub cfg: &'a Cfg,
    pub pre: &'a Model,
    pub post: &'a Model,
    pub salt: u64,
}

/// Open an image and judge it: exactly `pre` or exactly `post`.
pub fn verify_image<H: HK>(
    img: &DirImage,
    ctx: &ImgCtx,
    must: Option<Which>,
    deep: u8,
    scratch: &Scratch,
    what: &str,
) -> Result<Which, String> {
    // a case enumerates hundreds of images: each one judged is progress for the watchdog (a nomt call that
    // hangs inside one image still trips it)
    crate::runner::heartbeat();
    let dir = scratch.dir(Fs::Tmpfs);
    iosim::write_image(img, &dir).map_err(|e| format!("INFRA: write image: {e}"))?;
    let r = verify_dir::<H>(&dir, ctx, must, deep, what);
    hist::rm(&dir);
    r
}

pub fn verify_dir<H: HK>(
    dir: &Path,
    ctx: &ImgCtx,
    must: Option<Which>,
    deep: u8,
    what: &str,
) -> Result<Which, String> {
    let db = Db::<H>::open(dir, ctx.cfg).map_err(|f| format!("{what}: reopening fails: {}", f.sig()))?;
    let root = db.root();
    let (pre_root, post_root) = (ctx.pre.root(), ctx.post.root());
    let seqn = db.seqn();
    let which = if pre_root == post_root {
        if seqn == ctx.post.seqn {
            Which::Post
        } else {
            Which::Pre
        }
    } else if root == post_root {
        Which::Post
    } else if root == pre_root {
        Which::Pre
    } else {
        return Err(format!(
            "{what}: recovered root {} is neither the pre-state root {} nor the post-state root {} (seqn {seqn}, pre {}, post {})",
            hx8(&root),
            hx8(&pre_root),
            hx8(&post_root),
            ctx.pre.seqn,
            ctx.post.seqn
        ));
    };
    let m = match which {
        Which::Pre => ctx.pre,
        Which::Post => ctx.post,
    };
    if root != m.root() {
        return Err(format!("{what}: recovered root does not match the {which:?} state"));
    }
    if seqn != m.seqn {
        return Err(format!(
            "{what}: root is from the {which:?} state but sync_seqn is {seqn}, expected {}",
            m.seqn
        ));
    }
    if let Some(w) = must {
        if w != which {
            return Err(format!(
                "{what}: store shows the {which:?} state but must show {w:?} (the operation had returned success / the earlier recovery showed it)"
            ));
        }
    }
    // values: every key of either state
    let keys: BTreeSet<Key> = ctx.pre.cur.keys().chain(ctx.post.cur.keys()).cloned().collect();
    let keys: Vec<Key> = keys.into_iter().collect();
    hist::check_values(&db, &m.cur, &keys, false, 0)
        .map_err(|v| format!("{what}: values are not those of the {which:?} state (root and seqn are): {}", v.msg))?;
    if deep >= 1 {
        let mut info = CaseInfo::default();
        let q = hist::proof_queries(&m.cur, ctx.salt ^ 0xabc, 12);
        hist::check_proofs(&db, &[], &m.cur, &q, true, 0, &mut info)
            .map_err(|v| format!("{what}: proofs do not confirm the {which:?} state: {}", v.msg))?;
    }
    let mut expected = m.cur.clone();
    if deep >= 2 {
        if deep == 3 && m.rollback && m.guaranteed >= 1 {
            // rollback probe (destructive; the image is a throw-away copy)
            db.rollback(1)
                .map_err(|f| format!("{what}: rollback(1) on the recovered store fails: {}", f.sig()))?;
            let back = m.state_back(1).unwrap();
            if db.root() != root_of(H::KIND, back) {
                return Err(format!("{what}: rollback(1) on the recovered store does not restore the predecessor of the {which:?} state"));
            }
            let keys: Vec<Key> = back.keys().chain(m.cur.keys()).cloned().collect();
            hist::check_values(&db, back, &keys, false, 0)
                .map_err(|v| format!("{what}: after rollback(1) on the recovered store: {}", v.msg))?;
            expected = back.clone();
        } else {
            // one more commit behaves as in the model
            let mut s = SplitMix(ctx.salt ^ 0x77);
            let mut batch: BTreeMap<Key, MOp> = BTreeMap::new();
            let existing: Vec<Key> = m.cur.keys().cloned().collect();
            for i in 0..6u32 {
                let k = if !existing.is_empty() && i % 2 == 0 {
                    existing[s.below(existing.len() as u64) as usize]
                } else {
                    s.key()
                };
                let op = if i % 3 == 2 {
                    MOp::Write(None)
                } else {
                    MOp::Write(Some(Arc::new(crate::util::value_bytes(&k, 9999, 40 + i as usize))))
                };
                batch.insert(k, op);
            }
            let batch: Vec<(Key, MOp)> = batch.into_iter().collect();
            let (r, _) = db
                .commit_batch(&m.cur, &batch, &CommitOpts::default())
                .map_err(|f| format!("{what}: a further commit on the recovered store fails: {}", f.sig()))?;
            let next = crate::model::apply(H::KIND, &m.cur, &batch);
            if r != root_of(H::KIND, &next) || db.root() != r {
                return Err(format!("{what}: a further commit on the recovered store gives a wrong root"));
            }
            let keys: Vec<Key> = batch.iter().map(|(k, _)| *k).collect();
            hist::check_values(&db, &next, &keys, false, 0)
                .map_err(|v| format!("{what}: after a further commit on the recovered store: {}", v.msg))?;
            expected = next;
        }
    }
    let util = db.nomt.hash_table_utilization();
    db.close().map_err(|f| format!("{what}: closing the recovered store: {}", f.sig()))?;
    // C16 on recovered images: the files decode to exactly the expected state
    let d = hist::decode_check::<H>(dir, &expected).map_err(|m| format!("{what}: after recovery{} {m}", if deep >= 2 { " and one more operation" } else { "" }))?;
    // C19 on recovered handles: reported utilisation is the number of FULL buckets on disk; nothing leaked
    if util.occupied != d.ht_full {
        return Err(format!(
            "{what}: the recovered handle reports hash_table_utilization().occupied = {} but {} buckets are marked full on disk",
            util.occupied, d.ht_full
        ));
    }
    crate::decode::check_partition(&d).map_err(|m| format!("{what}: allocation after recovery: {m}"))?;
    Ok(which)
}

fn describe_boundary(tr: &[Ev], b: usize) -> String {
    // describe the event right before the boundary and the phase
    let mut meta_write_seen = false;
    let mut meta_fsync_done = false;
    let mut meta_fsync_id = None;
    let mut id_kind: BTreeMap<u64, (String, &'static str)> = BTreeMap::new();
    for ev in &tr[..b] {
        match ev {
            Ev::Begin { id, file, kind } => {
                id_kind.insert(*id, (file.clone(), kind.name()));
                if file == "meta" {
                    match kind {
                        Kind::Write { .. } => meta_write_seen = true,
                        Kind::Fsync => meta_fsync_id = Some(*id),
                        _ => {}
                    }
                }
            }
            Ev::End { id, .. } => {
                if Some(*id) == meta_fsync_id {
                    meta_fsync_done = true;
                }
            }
        }
    }
    let phase = if b == tr.len() {
        "after-return"
    } else if meta_fsync_done {
        "post-meta"
    } else if meta_write_seen {
        "meta"
    } else {
        "pre-meta"
    };
    let last = match tr[..b].last() {
        None => "start".to_string(),
        Some(Ev::Begin { file, kind, .. }) => format!("begin {}({})", kind.name(), iosim::file_class(file)),
        Some(Ev::End { id, .. }) => {
            let (f, k) = id_kind.get(id).cloned().unwrap_or_default();
            format!("end {}({})", k, iosim::file_class(&f))
        }
    };
    format!("{phase}@{b}/{} after {last}", tr.len())
}

pub fn phase_of(desc: &str) -> &str {
    desc.split('@').next().unwrap_or("")
}

struct Enumerated {
    images: Vec<(DirImage, String, bool)>, // image, description, must_be_post
}

/// Enumerate images at every event boundary of `tr` starting from checkpoint `cp`.
fn enumerate(cp: &Shadow, tr: &[Ev], mode: Mode, seed: u64, returned_ok: bool, randoms: usize, info: &mut CaseInfo) -> Enumerated {
    let mut out = Vec::new();
    let mut seen: BTreeSet<u64> = BTreeSet::new();
    let mut s = cp.clone();
    // second shadow with the POSIX-strict directory model (a creation is durable only through a
    // directory fsync): used for one extra fault class of power-loss images
    let mut st = cp.clone();
    st.strict_dir = true;
    let mut rng = SplitMix(seed);
    for b in 0..=tr.len() {
        let desc = describe_boundary(tr, b);
        let must_post = returned_ok && b == tr.len();
        let mut push = |img: DirImage, what: String, info: &mut CaseInfo| {
            let h = iosim::image_hash(&img);
            info.bump("images_generated");
            if seen.insert(h) {
                out.push((img, what, must_post));
            }
        };
        match mode {
            Mode::Crash => {
                let inflight = s.in_flight();
                let modes: &[u8] = if inflight == 0 { &[1] } else { &[0, 1, 2, 2] };
                for (j, m) in modes.iter().enumerate() {
                    let mut p = CrashPolicy {
                        mode: *m,
                        rng: SplitMix(rng.next() ^ j as u64),
                    };
                    let img = s.image(&mut p);
                    push(img, format!("process crash {desc} (in-flight:{inflight} choice:{m})"), info);
                }
            }
            Mode::Power => {
                if s.volatile_ops() == 0 {
                    let mut p = PowerPolicy { mode: 0, class: "", rng: SplitMix(0) };
                    push(s.image(&mut p), format!("power loss {desc} (nothing volatile)"), info);
                } else {
                    let mut classes: BTreeSet<&'static str> = BTreeSet::new();
                    for (n, f) in s.files() {
                        if !f.pending.is_empty() {
                            classes.insert(iosim::file_class(n));
                        }
                    }
                    if !s.dir_pending.is_empty() {
                        classes.insert("dir");
                    }
                    let mut pols: Vec<(u8, &'static str)> = vec![(0, ""), (1, "")];
                    for c in &classes {
                        pols.push((2, c));
                        pols.push((3, c));
                    }
                    for _ in 0..randoms {
                        pols.push((4, ""));
                    }
                    for (m, c) in pols {
                        let mut p = PowerPolicy {
                            mode: m,
                            class: c,
                            rng: SplitMix(rng.next()),
                        };
                        let img = s.image(&mut p);
                        let pd = match m {
                            0 => "all volatile writes lost".to_string(),
                            1 => "all volatile writes kept".to_string(),
                            2 => format!("all volatile writes kept except those of {c}"),
                            3 => format!("only the volatile writes of {c} kept"),
                            _ => "random admissible subset kept".to_string(),
                        };
                        push(img, format!("power loss {desc} ({pd})"), info);
                    }
                }
                // directory-entry fault class: creations / unlinks not covered by a completed fsync of the
                // DIRECTORY are lost (even if the file itself was fsynced), everything else kept / lost
                if st.dir_pending.len() > s.dir_pending.len() {
                    for (m, c, pd) in [(2u8, "dir", "file contents kept, but directory entries not covered by a directory fsync lost"), (0u8, "", "all volatile writes and directory entries not covered by a directory fsync lost")] {
                        let mut p = PowerPolicy { mode: m, class: c, rng: SplitMix(rng.next()) };
                        let img = st.image(&mut p);
                        info.bump("images_strict_directory_model");
                        push(img, format!("power loss {desc} ({pd})"), info);
                    }
                }
            }
        }
        if b < tr.len() {
            s.apply(&tr[b]);
            st.apply(&tr[b]);
        }
    }
    Enumerated { images: out }
}

pub struct FaultParams {
    pub mode: Mode,
    pub max_images: usize,
    pub nested: usize,
    pub max_nested_images: usize,
    pub randoms: usize,
}

/// Run one C03 / C04 case.
pub fn run_fault_case<H: HK>(case: &FaultCase, fp: &FaultParams, scratch: &Scratch) -> Result<CaseInfo, Violation> {
    // the operation under test is a single unit: an overlay chain at the end is cut to one overlay
    let mut hist_owned = case.hist.clone();
    if let Some(Step::Commit(c)) = hist_owned.steps.last_mut() {
        if let hist::Via::Overlays(_) = c.via {
            c.via = hist::Via::Overlays(1);
        }
    }
    let hist = &hist_owned;
    if hist.steps.is_empty() {
        return Ok(CaseInfo::default());
    }
    let rec = Recorder::install();
    rec.unwatch();
    let dir = scratch.dir(hist.cfg.fs);
    // creation is not a crash target: create, close, snapshot (everything durable)
    Db::<H>::open(&dir, &hist.cfg)
        .and_then(|d| d.close())
        .map_err(|f| Violation { step: 0, msg: f.sig() })?;
    let base = iosim::read_dir_image(&dir).map_err(|e| infra(format!("snapshot: {e}")))?;
    let mut shadow = Shadow::from_image(&base);
    rec.watch(&dir, None);
    let obs = Obs {
        root: true,
        ..Default::default()
    };
    let res = (|| {
        let mut r = Runner::<H>::with_dir(hist, &obs, dir.clone(), 1 << 20)?;
        let n = hist.steps.len();
        for (i, st) in hist.steps[..n - 1].iter().enumerate() {
            match r.step(i, st)? {
                StepOutcome::Done => {}
                StepOutcome::Discard(w) => {
                    let mut info = std::mem::take(&mut r.info);
                    info.discarded = Some(w);
                    return Ok(info);
                }
            }
            for ev in rec.take() {
                shadow.apply(&ev);
            }
        }
        for ev in rec.take() {
            shadow.apply(&ev);
        }
        completeness_check(&shadow, &dir)?;
        // operation under test
        let cp = shadow.clone();
        let pre = r.model.clone();
        let last = &hist.steps[n - 1];
        // in half of the cases one page write of the operation under test (the k-th to ln, bbn, wal or a rollback segment) is acknowledged late
        // (held back a few ms inside the hook before it is issued): a sync that does not wait for every completion
        // before it fsyncs then leaves that write outside the fsync's coverage
        let mut hs = SplitMix(case.choice_seed ^ 0x401d);
        // (also the WAL blob write and a rollback segment write: a sync that lets the switch-over overtake them)
        let held = hs.below(5) < 3;
        if held {
            let (class, nth) = match hs.below(10) {
                0..=3 => ("ln", hs.below(6) as usize),
                4..=5 => ("bbn", hs.below(6) as usize),
                6..=8 => ("wal", hs.below(2) as usize),
                _ => ("rollback", 0),
            };
            rec.set_hold_nth(Some((class, 4_000 + hs.below(8_000))), nth);
        }
        let outcome = r.step(n - 1, last);
        rec.set_hold(None);
        let tr = rec.take();
        let returned_ok = match outcome {
            Ok(StepOutcome::Done) => true,
            Ok(StepOutcome::Discard(w)) => {
                let mut info = std::mem::take(&mut r.info);
                info.discarded = Some(w);
                return Ok(info);
            }
            Err(v) => return Err(v),
        };
        let post = r.model.clone();
        let cfg = r.cfg.clone();
        let mut info = std::mem::take(&mut r.info);
        info.add("events_under_test", tr.len() as u64);
        if held {
            info.bump("ops_with_a_late_acknowledged_page_write");
        }
        let op_name = match last {
            Step::Commit(c) => match c.via {
                hist::Via::Session => "commit_session",
                hist::Via::Overlays(_) => "commit_overlay",
            },
            Step::Rollback(_) => "rollback",
            Step::Reopen(_) => "reopen",
        };
        info.bump(&format!("op_{op_name}"));
        for ev in &tr {
            shadow.apply(ev);
        }
        completeness_check(&shadow, &dir)?;
        r.finish()?;
        rec.unwatch();

        let mut total_verified = 0usize;
        {
            let ictx = ImgCtx {
                cfg: &cfg,
                pre: &pre,
                post: &post,
                salt: hist.salt,
            };
            if std::env::var_os("VERIF_DEBUG").is_some() {
                eprintln!("CHECKPOINT dir_durable {:?} dir_pending {:?}", cp.dir_durable.keys().collect::<Vec<_>>(), cp.dir_pending.iter().map(|d| (d.create, d.name.clone(), d.completed)).collect::<Vec<_>>());
                for (i, ev) in tr.iter().enumerate() {
                    match ev {
                        Ev::Begin { id, file, kind } => eprintln!("  {i}: begin #{id} {} {}", kind.name(), file),
                        Ev::End { id, ok } => eprintln!("  {i}: end #{id} ok={ok}"),
                    }
                }
            }
            let en = enumerate(&cp, &tr, fp.mode, case.choice_seed, returned_ok, fp.randoms, &mut info);
            let quiescent: BTreeSet<u64> = [
                iosim::image_hash(&keep_all_image(&cp)),
                iosim::image_hash(&keep_all_image(&shadow)),
            ]
            .into_iter()
            .collect();
            let imgs = en.images;
            let stride = (imgs.len() + fp.max_images - 1) / fp.max_images.max(1);
            let mut nested_done = 0usize;
            let mut nested_pre = 0usize;
            for (j, (img, what, must_post)) in imgs.iter().enumerate() {
                if stride > 1 && j % stride != 0 && !*must_post {
                    info.bump("images_skipped_by_budget");
                    continue;
                }
                let must = if *must_post { Some(Which::Post) } else { None };
                let deep = match j % 4 {
                    0 => 2,
                    1 => 3,
                    _ => 1,
                };
                let which = verify_image::<H>(img, &ictx, must, deep, scratch, what).map_err(|m| {
                    if m.starts_with("INFRA") {
                        infra(m)
                    } else {
                        Violation { step: n - 1, msg: m }
                    }
                })?;
                total_verified += 1;
                info.bump("images_verified");
                let ph = what.split(' ').nth(2).map(phase_of).unwrap_or("");
                info.bump(&format!("img_{ph}_{which:?}"));
                if !quiescent.contains(&iosim::image_hash(img)) {
                    info.bump("images_nonquiescent");
                }
                // nested: crash / power loss during the recovery of this image
                let wal_nonempty = img.get("wal").map_or(false, |w| w.len > 0);
                let want_nested = wal_nonempty
                    && match which {
                        // a WAL that will be replayed (meta already switched): the interesting case
                        Which::Post => nested_done < fp.nested,
                        // a WAL that will be discarded
                        Which::Pre => nested_pre < 1,
                    };
                if want_nested {
                    match which {
                        Which::Post => nested_done += 1,
                        Which::Pre => nested_pre += 1,
                    }
                    nested::<H>(img, &ictx, which, fp, case.choice_seed ^ j as u64, scratch, what, &mut info).map_err(|m| {
                        if m.starts_with("INFRA") {
                            infra(m)
                        } else {
                            Violation { step: n - 1, msg: m }
                        }
                    })?;
                }
            }
        }
        info.nontrivial = total_verified >= 3 && info.labels.get("images_nonquiescent").copied().unwrap_or(0) >= 1;
        Ok(info)
    })();
    rec.unwatch();
    hist::rm(&dir);
    res
}

/// Crash / power loss during the recovery open of `img`.
fn nested<H: HK>(
    img: &DirImage,
    ictx: &ImgCtx,
    parent: Which,
    fp: &FaultParams,
    seed: u64,
    scratch: &Scratch,
    what: &str,
    info: &mut CaseInfo,
) -> Result<(), String> {
    let rec = Recorder::install();
    let dir = scratch.dir(Fs::Tmpfs);
    iosim::write_image(img, &dir).map_err(|e| format!("INFRA: write image: {e}"))?;
    let cp = Shadow::from_image(img);
    rec.watch(&dir, None);
    let opened = Db::<H>::open(&dir, ictx.cfg);
    let tr = rec.take();
    let r = (|| {
        let db = opened.map_err(|f| format!("{what}: reopening fails: {}", f.sig()))?;
        db.close().map_err(|f| f.sig())?;
        let _ = rec.take();
        rec.unwatch();
        if tr.is_empty() {
            return Ok(());
        }
        info.bump("nested_recoveries_traced");
        if std::env::var_os("VERIF_DEBUG").is_some() {
            eprintln!("NESTED after [{what}] image files: {:?}", img.iter().map(|(n, c)| (n.clone(), c.len)).collect::<Vec<_>>());
            for (i, ev) in tr.iter().enumerate() {
                match ev {
                    Ev::Begin { id, file, kind } => eprintln!("  {i}: begin #{id} {} {}", kind.name(), file),
                    Ev::End { id, ok } => eprintln!("  {i}: end #{id} ok={ok}"),
                }
            }
        }
        let en = enumerate(&cp, &tr, fp.mode, seed, true, fp.randoms.min(1), info);
        let stride = (en.images.len() + fp.max_nested_images - 1) / fp.max_nested_images.max(1);
        for (j, (img2, what2, _)) in en.images.iter().enumerate() {
            if stride > 1 && j % stride != 0 && j + 1 != en.images.len() {
                continue;
            }
            let w = format!("{what}; then, during the recovery open, {what2}");
            verify_image::<H>(img2, ictx, Some(parent), if j % 2 == 0 { 2 } else { 1 }, scratch, &w)?;
            info.bump("nested_images_verified");
        }
        Ok(())
    })();
    rec.unwatch();
    hist::rm(&dir);
    r
}



/// Shared "states reached through a crash recovery" tier of the checks that are not about crashes themselves:
/// for one case in `modulus` the last operation of the history is crashed at every I/O event boundary and every
/// recovered store is judged by `verify_dir` (root / seqn / values / proofs / a further model-checked commit or
/// rollback / decoder / allocation / utilisation). Returns the number of recovered stores judged.
pub fn recovery_tier(hist: &History, ctx: &crate::runner::Ctx, modulus: u64, max_images_quick: usize, tag: &str) -> Result<Option<u64>, Violation> {
    if hist.salt % modulus != 0 || hist.steps.len() < 2 {
        return Ok(None);
    }
    let fc = FaultCase { hist: hist.clone(), choice_seed: hist.salt };
    let fp = FaultParams {
        mode: Mode::Crash,
        max_images: ctx.tier.pick(max_images_quick, 300),
        nested: 1,
        max_nested_images: 8,
        randoms: 1,
    };
    let r = match hist.cfg.hasher {
        crate::reftrie::HasherKind::Blake3 | crate::reftrie::HasherKind::TailLabel => run_fault_case::<crate::driver::B3>(&fc, &fp, &ctx.scratch),
        crate::reftrie::HasherKind::Sha2 => run_fault_case::<crate::driver::S2>(&fc, &fp, &ctx.scratch),
    };
    let ci = r.map_err(|v| Violation { step: v.step, msg: format!("[{tag}] {}", v.msg) })?;
    Ok(Some(ci.labels.get("images_verified").copied().unwrap_or(0)))
}
