//! proptest glue, process sharding, replay files, known findings and evidence files.

use crate::hist::{CaseInfo, Violation};
use proptest::strategy::BoxedStrategy;
use proptest::test_runner::{Config, RngSeed, TestCaseError, TestError, TestRunner};
use serde::{de::DeserializeOwned, Deserialize, Serialize};
use std::cell::RefCell;
use std::collections::{BTreeMap, BTreeSet};
use std::path::{Path, PathBuf};
use std::time::Instant;

#[derive(Clone, Copy, Debug, PartialEq, Eq)]
pub enum Tier {
    Quick,
    Thorough,
}
impl Tier {
    pub fn name(self) -> &'static str {
        match self {
            Tier::Quick => "quick",
            Tier::Thorough => "thorough",
        }
    }
    pub fn pick<T>(self, q: T, t: T) -> T {
        match self {
            Tier::Quick => q,
            Tier::Thorough => t,
        }
    }
}

pub struct Ctx {
    pub tier: Tier,
    pub shard: u32,
    pub scratch: crate::hist::Scratch,
}

/// A property check: a generator, an oracle, and a non-triviality rule.
pub trait Check: 'static {
    type Case: std::fmt::Debug + Clone + Serialize + DeserializeOwned + 'static;
    const ID: &'static str;
    const LEVEL: &'static str;
    /// Whether to persist the current case before running it (lets the parent turn a worker abort
    /// into a reproducible verdict). Costs one serialisation per case.
    const CRASH_GUARD: bool = true;
    fn rule() -> String;
    fn assumptions() -> Vec<String> {
        Vec::new()
    }
    fn cases(tier: Tier) -> u32;
    fn strategy(tier: Tier) -> BoxedStrategy<Self::Case>;
    fn run(case: &Self::Case, ctx: &Ctx) -> Result<CaseInfo, Violation>;
    fn brief(case: &Self::Case) -> String;
    fn max_shrink_iters(_tier: Tier) -> u32 {
        400
    }
}

#[derive(Serialize, Deserialize, Default, Debug)]
pub struct ShardOut {
    pub evaluations: u64,
    pub nontrivial: BTreeSet<u64>,
    pub discarded: BTreeMap<String, u64>,
    pub labels: BTreeMap<String, u64>,
    pub samples: Vec<String>,
    pub violations: Vec<(String, String)>, // (replay path, message)
    pub known: Vec<(String, String)>,      // (finding id, message)
    #[serde(default)]
    pub infra: Vec<String>,
}

#[derive(Serialize, Deserialize, Clone, Debug)]
pub struct KnownFinding {
    pub id: String,
    pub property: String,
    /// Substring that identifies the finding in a violation message.
    pub signature: String,
    pub description: String,
    #[serde(default)]
    pub status: String,
}

pub fn load_known(property: &str) -> Vec<KnownFinding> {
    let p = Path::new("/verif/known_findings.json");
    let Ok(s) = std::fs::read_to_string(p) else {
        return Vec::new();
    };
    let v: serde_json::Value = serde_json::from_str(&s).expect("known_findings.json parses");
    let mut out = Vec::new();
    if let Some(arr) = v.get("findings").and_then(|a| a.as_array()) {
        for f in arr {
            if let Ok(k) = serde_json::from_value::<KnownFinding>(f.clone()) {
                if k.property == property && k.status != "fixed" {
                    out.push(k);
                }
            }
        }
    }
    out
}

pub fn match_known<'a>(known: &'a [KnownFinding], msg: &str) -> Option<&'a KnownFinding> {
    known.iter().find(|k| msg.contains(&k.signature))
}

#[derive(Serialize, Deserialize)]
pub struct Replay<C> {
    pub property: String,
    pub message: String,
    pub step: usize,
    pub case: C,
}

pub fn replay_dir(id: &str) -> PathBuf {
    PathBuf::from(format!("/verif/replays/{id}"))
}

pub fn save_replay<C: Check>(case: &C::Case, v: &Violation, dir: &Path) -> String {
    let _ = std::fs::create_dir_all(dir);
    let r = Replay {
        property: C::ID.to_string(),
        message: v.msg.clone(),
        step: v.step,
        case: case.clone(),
    };
    let body = serde_json::to_string_pretty(&r).unwrap();
    let h = crate::util::fnv(serde_json::to_string(case).unwrap().as_bytes());
    let path = dir.join(format!("{h:016x}.json"));
    std::fs::write(&path, body).expect("write replay");
    path.display().to_string()
}

pub fn found_dir(id: &str) -> PathBuf {
    match std::env::var("VERIF_FOUND_DIR") {
        Ok(d) if !d.is_empty() => PathBuf::from(d).join(id),
        _ => PathBuf::from(format!("/verif/replays/{id}/found")),
    }
}

/// Run one shard of a check's generated search. Never panics on a violation; returns the stats.
pub fn run_shard<C: Check>(tier: Tier, seed: u64, shard: u32, nshards: u32, current: Option<&Path>) -> ShardOut {
    let total = std::env::var("VERIF_CASES_OVERRIDE").ok().and_then(|s| s.parse().ok()).unwrap_or(C::cases(tier)); // (development aid)
    let cases = (total + nshards - 1) / nshards;
    let ctx = Ctx {
        tier,
        shard,
        scratch: crate::hist::Scratch::new(&format!("{}.{}", C::ID, shard)),
    };
    let known = load_known(C::ID);
    let out = RefCell::new(ShardOut::default());
    let failed = RefCell::new(false);
    let mut config = Config::default();
    config.cases = cases;
    config.failure_persistence = None;
    config.rng_seed = RngSeed::Fixed(seed.wrapping_mul(1000).wrapping_add(shard as u64));
    config.max_shrink_iters = C::max_shrink_iters(tier);
    // shrinking is bounded in iterations (per check) AND in wall time: a less minimal counter-example is
    // still a counter-example, while a check that shrinks a heavy case for a quarter of an hour is unusable
    config.max_shrink_time = std::env::var("VERIF_MAX_SHRINK_MS").ok().and_then(|s| s.parse().ok()).unwrap_or(tier.pick(45_000, 240_000));
    config.verbose = 0;
    let mut runner = TestRunner::new(config);
    let strategy = C::strategy(tier);
    let last_violation: RefCell<Option<Violation>> = RefCell::new(None);
    let res = runner.run(&strategy, |case| {
        if let (Some(p), true) = (current, C::CRASH_GUARD) {
            let _ = std::fs::write(p, serde_json::to_string(&case).unwrap());
        }
        heartbeat();
        let enospc_before = crate::iosim::INJECTED_ENOSPC.load(std::sync::atomic::Ordering::SeqCst);
        let verdict = C::run(&case, &ctx);
        // a real ENOSPC of the scratch file system (none injected during this case) is an infrastructure problem
        let verdict = match verdict {
            Err(v) if v.msg.contains("No space left on device") && !v.msg.starts_with("INFRA:") && crate::iosim::INJECTED_ENOSPC.load(std::sync::atomic::Ordering::SeqCst) == enospc_before => Err(Violation {
                step: v.step,
                msg: format!("INFRA: the scratch file system ran out of space (ENOSPC from the OS, none injected in this case): {}", v.msg),
            }),
            other => other,
        };
        ctx.scratch.sweep();
        let counting = !*failed.borrow();
        match verdict {
            Ok(info) => {
                if counting {
                    let mut o = out.borrow_mut();
                    o.evaluations += 1;
                    if let Some(d) = &info.discarded {
                        *o.discarded.entry(d.clone()).or_insert(0) += 1;
                    }
                    for (k, v) in &info.labels {
                        let e = o.labels.entry(k.clone()).or_insert(0);
                        if k.starts_with("max_") {
                            *e = (*e).max(*v);
                        } else {
                            *e += *v;
                        }
                    }
                    if info.nontrivial {
                        let h = crate::util::fnv(serde_json::to_string(&case).unwrap().as_bytes());
                        o.nontrivial.insert(h);
                        if o.samples.len() < 4 {
                            o.samples.push(C::brief(&case));
                        }
                    }
                }
                Ok(())
            }
            Err(v) if v.msg.starts_with("INFRA:") => {
                let mut o = out.borrow_mut();
                if o.infra.len() < 20 {
                    o.infra.push(v.msg.clone());
                }
                Ok(())
            }
            Err(v) => {
                if let Some(k) = match_known(&known, &v.msg) {
                    if counting {
                        let mut o = out.borrow_mut();
                        o.evaluations += 1;
                        if o.known.len() < 50 {
                            o.known.push((k.id.clone(), v.msg.clone()));
                        }
                        *o.labels.entry(format!("known_finding_{}", k.id)).or_insert(0) += 1;
                    }
                    return Ok(());
                }
                if counting {
                    out.borrow_mut().evaluations += 1;
                }
                *failed.borrow_mut() = true;
                *last_violation.borrow_mut() = Some(v.clone());
                Err(TestCaseError::fail(v.msg))
            }
        }
    });
    let mut o = out.into_inner();
    match res {
        Ok(()) => {}
        Err(TestError::Fail(_reason, case)) => {
            // re-run the minimal case once to get its exact message
            let v = match C::run(&case, &ctx) {
                Err(v) => v,
                Ok(_) => last_violation.borrow().clone().unwrap_or(Violation {
                    step: 0,
                    msg: "violation did not reproduce on the shrunk case (schedule-dependent)".into(),
                }),
            };
            let path = save_replay::<C>(&case, &v, &found_dir(C::ID));
            o.violations.push((path, v.msg));
        }
        Err(TestError::Abort(reason)) => {
            o.labels.insert(format!("proptest_abort:{reason}"), 1);
        }
    }
    o
}

// ---------------------------------------------------------------- watchdog

static HEARTBEAT: std::sync::atomic::AtomicU64 = std::sync::atomic::AtomicU64::new(0);
static START: std::sync::OnceLock<Instant> = std::sync::OnceLock::new();

pub fn heartbeat() {
    let t = START.get_or_init(Instant::now).elapsed().as_millis() as u64;
    HEARTBEAT.store(t, std::sync::atomic::Ordering::Relaxed);
}

/// Exit with code 3 if no case boundary is crossed for `limit_s` seconds (hang => inconclusive).
pub fn start_watchdog(limit_s: u64) {
    heartbeat();
    std::thread::spawn(move || loop {
        std::thread::sleep(std::time::Duration::from_secs(2));
        let now = START.get_or_init(Instant::now).elapsed().as_millis() as u64;
        let last = HEARTBEAT.load(std::sync::atomic::Ordering::Relaxed);
        if now.saturating_sub(last) > limit_s * 1000 {
            eprintln!("watchdog: no progress for {limit_s}s, exiting 3");
            std::process::exit(3);
        }
    });
}

// ---------------------------------------------------------------- evidence

#[derive(Serialize)]
pub struct Evidence {
    pub property_id: String,
    pub tier: String,
    pub seed: u64,
    pub level: String,
    pub coverage: serde_json::Value,
    pub assumptions: Vec<String>,
    pub wall_s: f64,
    pub violations: i64,
}

pub fn write_evidence(ev: &Evidence) {
    // VERIF_EVIDENCE_DIR: used by the mutant tools so that runs against a deliberately broken
    // tree never overwrite the evidence of the real tree.
    let dir = match std::env::var("VERIF_EVIDENCE_DIR") {
        Ok(d) if !d.is_empty() => d,
        _ => "/verif/evidence".to_string(),
    };
    let _ = std::fs::create_dir_all(&dir);
    let path = format!("{dir}/{}.json", ev.property_id);
    std::fs::write(&path, serde_json::to_string_pretty(ev).unwrap()).expect("write evidence");
}

pub fn merge(outs: Vec<ShardOut>) -> ShardOut {
    let mut m = ShardOut::default();
    for o in outs {
        m.evaluations += o.evaluations;
        m.nontrivial.extend(o.nontrivial);
        for (k, v) in o.discarded {
            *m.discarded.entry(k).or_insert(0) += v;
        }
        for (k, v) in o.labels {
            if k.starts_with("max_") {
                let e = m.labels.entry(k).or_insert(0);
                *e = (*e).max(v);
            } else {
                *m.labels.entry(k).or_insert(0) += v;
            }
        }
        for s in o.samples {
            if m.samples.len() < 6 {
                m.samples.push(s);
            }
        }
        m.violations.extend(o.violations);
        m.known.extend(o.known);
        m.infra.extend(o.infra);
    }
    m
}

/// Replay one saved case. Returns Err(message) if it (still) violates.
pub fn replay_file<C: Check>(path: &Path, tier: Tier) -> Result<CaseInfo, Violation> {
    let s = std::fs::read_to_string(path).expect("read replay");
    let v: serde_json::Value = serde_json::from_str(&s).expect("replay parses");
    let case_v = v.get("case").cloned().unwrap_or(v);
    let case: C::Case = serde_json::from_value(case_v).expect("replay case decodes");
    let ctx = Ctx {
        tier,
        shard: 99,
        scratch: crate::hist::Scratch::new(&format!("{}.replay", C::ID)),
    };
    C::run(&case, &ctx)
}

// ---------------------------------------------------------------- structural shrinker for saved cases

fn sig_of(msg: &str) -> String {
    // message class: strip hex/number details
    msg.chars()
        .map(|c| if c.is_ascii_digit() || ('a'..='f').contains(&c) { '#' } else { c })
        .take(60)
        .collect()
}

/// Delta-debugging style shrinker over the JSON form of a case (for cases that proptest could not
/// shrink itself: worker aborts, hangs, cases imported from other checks).
pub fn shrink_file<C: Check>(path: &Path, budget: usize) -> Option<(C::Case, Violation)> {
    use serde_json::Value;
    let s = std::fs::read_to_string(path).ok()?;
    let v: Value = serde_json::from_str(&s).ok()?;
    let mut cur = v.get("case").cloned().unwrap_or(v);
    let ctx = Ctx {
        tier: Tier::Quick,
        shard: 98,
        scratch: crate::hist::Scratch::new(&format!("{}.shrink", C::ID)),
    };
    let run = |val: &Value| -> Option<Violation> {
        let case: C::Case = serde_json::from_value(val.clone()).ok()?;
        std::panic::catch_unwind(std::panic::AssertUnwindSafe(|| C::run(&case, &ctx).err()))
            .ok()
            .flatten()
    };
    let first = run(&cur)?;
    let want = sig_of(&first.msg);
    let mut last = first;
    let mut runs = 0usize;
    // enumerate candidate edits by JSON pointer
    fn paths(v: &Value, at: String, out: &mut Vec<String>) {
        match v {
            Value::Array(a) => {
                out.push(at.clone());
                for (i, x) in a.iter().enumerate() {
                    paths(x, format!("{at}/{i}"), out);
                }
            }
            Value::Object(o) => {
                for (k, x) in o {
                    paths(x, format!("{at}/{k}"), out);
                }
            }
            Value::Number(_) | Value::Bool(_) => out.push(at),
            _ => {}
        }
    }
    let mut progress = true;
    while progress && runs < budget {
        progress = false;
        let mut ps = Vec::new();
        paths(&cur, String::new(), &mut ps);
        // arrays first (largest effect)
        ps.sort_by_key(|p| match cur.pointer(p) {
            Some(Value::Array(a)) => 0usize.wrapping_sub(a.len()),
            _ => 1,
        });
        'outer: for p in ps {
            if runs >= budget {
                break;
            }
            let Some(node) = cur.pointer(&p).cloned() else { continue };
            let mut cands: Vec<Value> = Vec::new();
            match &node {
                Value::Array(a) if !a.is_empty() => {
                    if a.len() > 3 {
                        cands.push(Value::Array(a[..a.len() / 2].to_vec()));
                        cands.push(Value::Array(a[a.len() / 2..].to_vec()));
                    }
                    for i in 0..a.len().min(12) {
                        let mut b = a.clone();
                        b.remove(i);
                        cands.push(Value::Array(b));
                    }
                }
                Value::Number(n) => {
                    if let Some(x) = n.as_u64() {
                        if x > 0 {
                            cands.push(Value::from(0u64));
                            cands.push(Value::from(x / 2));
                            cands.push(Value::from(x - 1));
                        }
                    }
                }
                Value::Bool(true) => cands.push(Value::Bool(false)),
                _ => {}
            }
            for c in cands {
                if runs >= budget {
                    break 'outer;
                }
                let mut trial = cur.clone();
                *trial.pointer_mut(&p).unwrap() = c;
                runs += 1;
                if let Some(v) = run(&trial) {
                    if sig_of(&v.msg) == want {
                        cur = trial;
                        last = v;
                        progress = true;
                        continue 'outer;
                    }
                }
            }
        }
    }
    let case: C::Case = serde_json::from_value(cur).ok()?;
    Some((case, last))
}
