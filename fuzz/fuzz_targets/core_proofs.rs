//! Coverage-guided (libFuzzer) driver for the pure-core properties C07, C08 and C18.
//!
//! The input bytes are decoded through `arbitrary::Unstructured` into the same structured case
//! (`CoreCase`: key recipes, query keys, write ops, mutation operators, root mode) the proptest
//! checks use, and the same in-target oracles run on it: multi-proof vs path-proof equivalence (C07),
//! soundness of whatever an adversarial object lets the verifier confirm (C08), totality of every
//! verifier entry point (C18). A violation writes the decoded case as a replay file
//! ($VERIF_FOUND_DIR or /verif/replays/<ID>/found/fuzz-<hash>.json) and aborts the run.
#![no_main]
use arbitrary::Unstructured;
use libfuzzer_sys::fuzz_target;
use nomt_verif::gen::{KeyRecipe, Suffix};
use nomt_verif::props::core::{run_c07, run_c08, run_c18, CoreCase, Mutn, OpSpec};

fn decode(u: &mut Unstructured<'_>) -> arbitrary::Result<CoreCase> {
    let salt: u64 = u.arbitrary()?;
    let sha2 = u.ratio(1u8, 4u8)?;
    let nkeys = u.int_in_range(0..=30usize)?;
    let mut keys = Vec::with_capacity(nkeys);
    for _ in 0..nkeys {
        let cluster = u.int_in_range(0..=3u8)?;
        // bias towards page boundaries and very deep prefixes, like the proptest strategy
        let plen = match u.int_in_range(0..=5u8)? {
            0 => *u.choose(&[5u8, 6, 7, 11, 12, 13, 17, 18, 19])?,
            1 => u.int_in_range(248..=255u8)?,
            2 => u.int_in_range(0..=7u8)? * 8,
            _ => u.arbitrary()?,
        };
        let suffix = match u.int_in_range(0..=3u8)? {
            0 => Suffix::Zero,
            1 => Suffix::Ones,
            2 => Suffix::Seq(u.arbitrary()?),
            _ => Suffix::Rand(u.arbitrary()?),
        };
        keys.push(KeyRecipe { cluster, plen, suffix });
    }
    let nq = u.int_in_range(1..=10usize)?;
    let mut queries = Vec::with_capacity(nq);
    for _ in 0..nq {
        let bit: u16 = if u.ratio(1u8, 4u8)? { 300 } else { u.int_in_range(0..=255u16)? };
        queries.push((u.arbitrary()?, bit, u.int_in_range(0..=2u8)?));
    }
    let nops = u.int_in_range(0..=8usize)?;
    let mut ops = Vec::with_capacity(nops);
    for _ in 0..nops {
        let val = if u.ratio(7u8, 10u8)? { Some(u.arbitrary()?) } else { None };
        ops.push(OpSpec { term: u.arbitrary()?, own: u.ratio(3u8, 10u8)?, suffix: u.arbitrary()?, val });
    }
    let nm = u.int_in_range(0..=6usize)?;
    let mut muts = Vec::with_capacity(nm);
    for _ in 0..nm {
        muts.push(Mutn { kind: u.int_in_range(0..=31u8)?, a: u.arbitrary()?, b: u.arbitrary()?, r: u.arbitrary()? });
    }
    let root_mode = *u.choose(&[0u8, 0, 0, 0, 0, 0, 1, 2, 2, 2])?;
    let tail_label = salt % 7 == 0;
    Ok(CoreCase { salt, sha2, tail_label, keys, queries, ops, muts, root_mode })
}

fn report(id: &str, case: &CoreCase, msg: &str) -> ! {
    let dir = match std::env::var("VERIF_FOUND_DIR") {
        Ok(d) if !d.is_empty() => format!("{d}/{id}"),
        _ => format!("/verif/replays/{id}/found"),
    };
    let _ = std::fs::create_dir_all(&dir);
    let body = serde_json::json!({"property": id, "message": msg, "step": 0, "case": case});
    let text = serde_json::to_string_pretty(&body).unwrap();
    let h = nomt_verif::util::fnv(serde_json::to_string(case).unwrap().as_bytes());
    let path = format!("{dir}/fuzz-{h:016x}.json");
    let _ = std::fs::write(&path, text);
    eprintln!("  {msg}");
    eprintln!("VIOLATION property={id} replay={path}");
    std::process::abort();
}

fuzz_target!(|data: &[u8]| {
    static INIT: std::sync::Once = std::sync::Once::new();
    INIT.call_once(nomt_verif::driver::install_panic_hook);
    let mut u = Unstructured::new(data);
    let Ok(case) = decode(&mut u) else { return };
    let only = std::env::var("VERIF_FUZZ_ONLY").unwrap_or_default();
    if case.muts.is_empty() && (only.is_empty() || only == "C07") {
        if let Err(v) = run_c07(&case) {
            report("C07", &case, &v.msg);
        }
    }
    if only.is_empty() || only == "C18" {
        if let Err(v) = run_c18(&case) {
            report("C18", &case, &v.msg);
        }
    }
    if case.root_mode != 2 && (only.is_empty() || only == "C08") {
        if let Err(v) = run_c08(&case) {
            report("C08", &case, &v.msg);
        }
    }
});
