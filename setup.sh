#!/bin/bash
# Build the verification harness offline from files on disk.
set -e
cd /verif/harness
export CARGO_NET_OFFLINE=true
cargo build --release --offline 2>&1 | tail -3
