#!/bin/bash
# tools/confirm_mutant.sh <name e.g. C01-a> [demo cargo args...]
# Confirms a seeded change in its scratch worktree /tmp/mut/<name>: compiles, existing suite passes (except the 6
# baseline trickfs failures), demo fails with the change and passes without it. Writes seeded/<name>/confirm.log.
name="$1"; wt=/tmp/mut/$name; out=/verif/seeded/$name; lc=$(echo ${name%%-*} | tr A-Z a-z)
orig=$(ls $out/patch.orig-*.diff 2>/dev/null | head -1); PATCH=${orig:-$out/patch.diff}
demo=$(basename $(ls $out/seeded_*.rs | head -1) .rs)
crate=nomt; [ -f $wt/core/tests/$demo.rs ] && crate=nomt-core
feat=""; grep -q "verif" $out/$demo.rs && [ $crate = nomt ] && feat="--features verif-hooks"
export CARGO_TARGET_DIR=$wt/target
cd $wt || exit 2
log=$out/confirm.log; : > $log
clean() { rm -rf $wt/nomt/test $wt/test $wt/core/test; }
echo "## worktree state" >> $log; git status --short >> $log
git apply --check -R $PATCH 2>>$log && echo "patch is applied in worktree" >> $log
echo "## suite with change (expect only 6 trickfs failures + the demo)" >> $log
cargo test --workspace --offline -j 8 --no-fail-fast 2>&1 | grep -E "^test result|FAILED|failed|^test .* FAILED|panicked" | sort | uniq -c | sort -rn | head -40 >> $log; clean
echo "## demo with change (expect FAIL)" >> $log
cargo test --offline -j 8 -p $crate $feat --test $demo 2>&1 | grep -E "^test |test result" >> $log; clean
git apply -R $PATCH
echo "## demo without change (expect PASS)" >> $log
cargo test --offline -j 8 -p $crate $feat --test $demo 2>&1 | grep -E "^test |test result" >> $log; clean
git apply $PATCH
echo done >> $log
