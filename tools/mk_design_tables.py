#!/usr/bin/env python3
"""Regenerates the generated tables of DESIGN.md (between <!-- ...-begin --> / <!-- ...-end --> markers):
the findings table from known_findings.json and the seeded-changes table from seeded/*/ (also rewrites meta.json)."""
import json, re, subprocess
p = '/verif/DESIGN.md'
s = open(p).read()
kf = json.load(open('/verif/known_findings.json'))['findings']
rows = ['| id | property | status | what failed (input / history / fault that shows it) |', '|---|---|---|---|']
for f in kf:
    d = f['description']
    if f['status'] == 'fixed':
        parts = d.split(' ', 3)
        rows.append(f"| {f['id']} | {f['property']} | fixed `{parts[2]}` | {parts[3] if len(parts) > 3 else ''} |")
    else:
        rows.append(f"| {f['id']} | {f['property']} | **open** (known finding) | {d} |")
def put(s, name, body):
    a = s.index(f'<!-- {name}-begin -->') + len(f'<!-- {name}-begin -->\n')
    b = s.index(f'<!-- {name}-end -->')
    return s[:a] + body + '\n' + s[b:]
s = put(s, 'findings-table', '\n'.join(rows))
if '<!-- seeded-table-begin -->' in s:
    t = subprocess.run(['python3', '/verif/tools/mk_seeded_meta.py'], capture_output=True, text=True).stdout.strip()
    s = put(s, 'seeded-table', t)
open(p, 'w').write(s)
print('tables regenerated:', len(kf), 'findings')
