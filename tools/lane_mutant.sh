#!/bin/bash
# tools/lane_mutant.sh <lane> <mutant-name> <ID> [<ID>...]
# Like try_mutant.sh, but in a private "lane": a scratch git worktree of /repo (HEAD) under /tmp/lane<lane>/repo
# and a copy of the harness whose path dependencies point there, with its own target dir - so that /repo and
# /verif/target are not touched and several lanes / the main work can proceed in parallel.
# The first shrunk counter-example of each check is kept as replays/<ID>/seeded-<name>.json if it holds on the
# unchanged tree (checked with /verif/target/release/vcheck, which must be current).
# VERIF_TIER_M=thorough runs the thorough tier instead of quick.
lane="$1"; name="$2"; shift 2
L=/tmp/lane$lane
patch=/verif/seeded/$name/patch.diff
tier=${VERIF_TIER_M:-quick}
if [ ! -d $L/repo ]; then
  mkdir -p $L
  git -C /repo worktree add --detach $L/repo HEAD >/dev/null 2>&1 || { echo "worktree add failed"; exit 2; }
fi
git -C $L/repo checkout -q --detach $(git -C /repo rev-parse HEAD) 2>/dev/null
git -C $L/repo checkout -- . 2>/dev/null
rm -rf $L/harness; mkdir -p $L/harness
cp -r /verif/harness/src /verif/harness/Cargo.toml /verif/harness/Cargo.lock $L/harness/
mkdir -p $L/harness/.cargo
printf '[net]\noffline = true\n[build]\ntarget-dir = "%s/target"\n' $L > $L/harness/.cargo/config.toml
sed -i "s#/repo/#$L/repo/#g" $L/harness/Cargo.toml
git -C $L/repo apply "$patch" || { echo "patch does not apply"; exit 2; }
( cd $L/harness && CARGO_NET_OFFLINE=true cargo build --release --offline > $L/build.log 2>&1 ) || { tail -20 $L/build.log; git -C $L/repo checkout -- .; echo "build failed"; exit 2; }
rm -rf /dev/shm/lane$lane-found
for id in "$@"; do
  echo "=== $id ($tier) with $name"
  ( cd /verif && VERIF_EVIDENCE_DIR=/dev/shm/lane$lane-evidence VERIF_FOUND_DIR=/dev/shm/lane$lane-found VERIF_SHARDS=${VERIF_SHARDS:-8} $L/target/release/vcheck run $id $tier > $L/run.log 2>&1; echo "exit=$?"; grep -v "^KNOWN-FINDING" $L/run.log | tail -4 | cut -c1-500 )
done
git -C $L/repo checkout -- .
cd /verif
for id in "$@"; do
  f=$(ls /dev/shm/lane$lane-found/$id/*.json 2>/dev/null | grep -v "abort\|hang" | head -1)
  [ -z "$f" ] && f=$(ls /dev/shm/lane$lane-found/$id/*.json 2>/dev/null | head -1)
  if [ -n "$f" ]; then
    mkdir -p replays/$id
    if [ -f replays/$id/seeded-$name.json ]; then echo "replays/$id/seeded-$name.json exists already"; continue; fi
    cp "$f" replays/$id/seeded-$name.json
    if timeout 600 ./target/release/vcheck replay $id replays/$id/seeded-$name.json >/dev/null 2>&1; then echo "kept regression replay replays/$id/seeded-$name.json"; else echo "replay fails on clean tree (schedule-dependent?) - dropped"; rm -f replays/$id/seeded-$name.json; fi
  fi
done
rm -rf /dev/shm/lane$lane-found /dev/shm/lane$lane-evidence
