#!/bin/bash
# tools/silence.sh <seed> [<seed>...] : runs every quick check on the current tree once per seed (evidence and found
# cases redirected, so the committed evidence is not touched) and appends one line per check to validation/silence.log.
mkdir -p /verif/validation
for seed in "$@"; do
  for id in C01 C02 C03 C04 C05 C06 C07 C08 C09 C10 C11 C12 C13 C14 C15 C16 C17 C18 C19 C20; do
    t0=$(date +%s)
    out=$(cd /verif && VERIF_SEED=$seed VERIF_EVIDENCE_DIR=/dev/shm/silence-evidence VERIF_FOUND_DIR=/verif/validation/found-seed$seed ./run.sh $id quick 2>&1); rc=$?
    t1=$(date +%s)
    echo "$(git -C /repo rev-parse --short HEAD) $(git -C /verif rev-parse --short HEAD) seed=$seed $id rc=$rc $((t1-t0))s :: $(echo "$out" | grep -v '^WARNING\|^KNOWN-FINDING' | tail -1 | cut -c1-160)" >> /verif/validation/silence.log
  done
done
rm -rf /dev/shm/silence-evidence
