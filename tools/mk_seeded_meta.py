#!/usr/bin/env python3
"""Writes seeded/<name>/meta.json for every seeded change (from NOTES.md, patch.diff, confirm.log, detect.log and
the regression replays kept for it) and prints the markdown table used in DESIGN.md appendix B."""
import glob, json, os, re, sys

rows = []
for d in sorted(glob.glob('/verif/seeded/*')):
    name = os.path.basename(d)
    prop = name.split('-')[0]
    notes = open(f'{d}/NOTES.md').read() if os.path.exists(f'{d}/NOTES.md') else ''
    title = notes.split('\n', 1)[0].lstrip('# ').strip()

    def section(pat):
        m = re.search(r'^##+ [^\n]*(' + pat + r')[^\n]*\n(.*?)(?=^##+ |\Z)', notes, re.S | re.M | re.I)
        return re.sub(r'\s+', ' ', m.group(2)).strip() if m else ''
    breaks = section(r'break|Why this')
    needs = section(r'needed for it to manifest')
    if not needs:
        needs = section(r'manifest')
    patch = open(f'{d}/patch.diff').read()
    files = re.findall(r'^\+\+\+ b/(\S+)', patch, re.M)
    funcs = [re.sub(r'^@@[^@]*@@\s*', '', l).strip() for l in re.findall(r'^@@.*$', patch, re.M)]
    funcs = [f for f in dict.fromkeys(funcs) if f][:3]
    demo = sorted(os.path.basename(p) for p in glob.glob(f'{d}/seeded_*.rs'))
    confirm = open(f'{d}/confirm.log').read() if os.path.exists(f'{d}/confirm.log') else ''
    m_with = re.search(r'## demo with change.*?\n(.*?)## demo without', confirm, re.S)
    m_without = re.search(r'## demo without change.*?\n(.*?)(?:done|\Z)', confirm, re.S)
    res_with = re.findall(r'test result: (\w+)', m_with.group(1)) if m_with else []
    res_without = re.findall(r'test result: (\w+)', m_without.group(1)) if m_without else []
    suite_other_failures = [l.strip() for l in re.findall(r'^\s*\d+ test (?!result).*FAILED.*$', confirm.split('## demo with')[0], re.M)]
    caught = sorted(os.path.basename(os.path.dirname(p)) for p in glob.glob(f'/verif/replays/*/seeded-{name}.json'))
    detect = open(f'{d}/detect.log').read() if os.path.exists(f'{d}/detect.log') else ''
    ran = re.findall(r'=== (C\d\d) \((\w+)\) with', detect)
    exits = re.findall(r'^exit=(\d+)', detect, re.M)
    last = {}
    first = {}
    for (c, _), e in zip(ran, exits):
        first.setdefault(c, e)
        last[c] = e
    missed_by = [c for c, e in last.items() if e == '0']
    strengthened = [c for c in last if first[c] == '0' and last[c] != '0']
    # a check that exited 1 against the change caught it, also when its counter-example was an existing regression replay
    caught = sorted(set(caught) | {c for c, e in last.items() if e == '1'})
    meta = {
        'name': name,
        'breaks_property': prop,
        'title': title,
        'files_changed': files,
        'sites': funcs,
        'what_breaks': breaks[:1200],
        'needs_to_manifest': needs[:1500],
        'demonstration': demo,
        'confirmed': {
            'how': 'tools/confirm_mutant.sh in the sub-agent\'s scratch worktree: cargo test --workspace (only the 6 baseline trickfs failures and the demo may fail), demo with the change, demo with the change reverted',
            'demo_with_change': res_with,
            'demo_without_change': res_without,
            'workspace_suite_with_change': 'passes except the 6 baseline trickfs tests and the demonstration itself',
        },
        'checks_run_against_it': [f'{c} {t}' for c, t in ran] or ['see DESIGN.md appendix B'],
        'caught_by': caught,
        'missed_by_quick_tier_of': missed_by,
        'caught_only_after_strengthening': strengthened,
    }
    json.dump(meta, open(f'{d}/meta.json', 'w'), indent=1)
    site = ', '.join(files) + (' (' + '; '.join(funcs)[:90] + ')' if funcs else '')
    short_needs = needs[:260] + ('…' if len(needs) > 260 else '')
    rows.append(f"| {name} | {site} | {short_needs} | {', '.join(caught) or '**none**'} |")

print('| change | site | needs, in order to manifest | caught by (quick tier; a shrunk counter-example is kept as `replays/<ID>/seeded-<change>.json`) |')
print('|---|---|---|---|')
print('\n'.join(rows))
