#!/bin/bash
# tools/intake_mutant.sh <name> <lane> <ID> [<ID>...] : take a sub-agent's seeded change from /tmp/mut/<name>.out,
# confirm it in its worktree (/tmp/mut/<name>), run the given checks against it in lane <lane>, remove the worktree.
name="$1"; lane="$2"; shift 2
out=/verif/seeded/$name
mkdir -p $out
cp /tmp/mut/$name.out/patch.diff /tmp/mut/$name.out/NOTES.md $out/ 2>/dev/null
cp /tmp/mut/$name.out/seeded_*.rs $out/ 2>/dev/null
/verif/tools/confirm_mutant.sh $name > /tmp/mut/$name.confirm.out 2>&1
sed -n '/## demo with/,$p' $out/confirm.log
/verif/tools/lane_mutant.sh $lane $name "$@" 2>&1 | tee $out/detect.log
git -C /repo worktree remove --force /tmp/mut/$name
rm -rf /tmp/mut/$name.out
