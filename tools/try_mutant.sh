#!/bin/bash
# tools/try_mutant.sh <patch.diff> <ID> [<ID>...] : apply a seeded change to /repo, run the quick checks, undo it.
patch="$1"; shift
cd /repo || exit 2
if [ -n "$(git status --porcelain --untracked-files=no)" ]; then echo "/repo not clean"; exit 2; fi
git apply "$patch" || { echo "patch does not apply"; exit 2; }
for id in "$@"; do
  echo "=== $id with $(basename $(dirname $patch))"
  ( cd /verif && VERIF_FOUND_DIR=/dev/shm/mutant-found ./run.sh $id quick 2>&1 | tail -6 ); echo "exit=$?"
done
git -C /repo checkout -- .
cd /verif && cargo build --release --offline --manifest-path harness/Cargo.toml >/dev/null 2>&1
git -C /verif status --short replays | head
