#!/bin/bash
# tools/try_mutant.sh <mutant-name> <ID> [<ID>...] : apply seeded/<name>/patch.diff to /repo, run the quick checks, undo it.
# The first shrunk counter-example of each check is kept as regression replay replays/<ID>/seeded-<name>.json
# (only if it holds on the unchanged tree).
name="$1"; shift
patch=/verif/seeded/$name/patch.diff
cd /repo || exit 2
if [ -n "$(git status --porcelain --untracked-files=no)" ]; then echo "/repo not clean"; exit 2; fi
git apply "$patch" || { echo "patch does not apply"; exit 2; }
rm -rf /dev/shm/mutant-found
for id in "$@"; do
  echo "=== $id with $name"
  ( cd /verif && VERIF_EVIDENCE_DIR=/dev/shm/mutant-evidence VERIF_FOUND_DIR=/dev/shm/mutant-found ./run.sh $id quick > /dev/shm/mutant-run.log 2>&1; echo "exit=$?"; tail -4 /dev/shm/mutant-run.log | cut -c1-400 )
done
git -C /repo checkout -- .
cd /verif/harness && cargo build --release --offline >/dev/null 2>&1
cd /verif
for id in "$@"; do
  f=$(ls /dev/shm/mutant-found/$id/*.json 2>/dev/null | grep -v abort | head -1)
  [ -z "$f" ] && f=$(ls /dev/shm/mutant-found/$id/*.json 2>/dev/null | head -1)
  if [ -n "$f" ]; then
    mkdir -p replays/$id; cp "$f" replays/$id/seeded-$name.json
    if ./target/release/vcheck replay $id replays/$id/seeded-$name.json >/dev/null 2>&1; then echo "kept regression replay replays/$id/seeded-$name.json"; else echo "replay fails on clean tree (schedule-dependent?) - dropped"; rm -f replays/$id/seeded-$name.json; fi
  fi
done
