#!/bin/bash
# tools/run_all.sh [quick|thorough] [ids...] : runs the checks one after another, prints exit code and time per check.
tier=${1:-quick}; shift
ids="$@"; [ -z "$ids" ] && ids="C01 C02 C03 C04 C05 C06 C07 C08 C09 C10 C11 C12 C13 C14 C15 C16 C17 C18 C19 C20"
cd /verif
for id in $ids; do
  t0=$(date +%s)
  out=$(./run.sh $id $tier 2>&1); rc=$?
  t1=$(date +%s)
  echo "$id rc=$rc $((t1-t0))s :: $(echo "$out" | grep -v '^WARNING\|^KNOWN-FINDING' | tail -1 | cut -c1-200)"
  echo "$out" | grep "VIOLATION\|INCONCLUSIVE" | head -5
done
