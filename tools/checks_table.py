NA={}
chk("C01","exploration",
 "Generated histories (proptest, shrinking) of commits/reopens under random configurations compared after every step with a sequential map model through Nomt::read and fresh sessions; says nothing about histories or sizes not generated.",
 "Trusts the reference model (imbl map) and the API preconditions encoded in the generator (sorted batches, truthful priors). Exploration only: absence of violations on N generated histories.",
 "property-based testing: stateful history generation + model-based oracle (proptest)","DESIGN.md §3 C01")
chk("C02","exploration",
 "Generated histories compared after every commit (FinishedSession::root, Overlay::root, Nomt::root, after reopen) with a from-scratch reference Merkle-Patricia trie over the model map, written from the specification with blake3/sha2 crates only.",
 "Trusts the independent reference trie (self-tested against hand values and build_trie) and hash collision resistance.",
 "property-based testing: model-based oracle with independent reference trie (proptest)","DESIGN.md §3 C02")
