NA={}
chk("C01","exploration",
 "Generated histories (proptest, shrinking) of commits/reopens under random configurations compared after every step with a sequential map model through Nomt::read and fresh sessions; says nothing about histories or sizes not generated.",
 "Trusts the reference model (imbl map) and the API preconditions encoded in the generator (sorted batches, truthful priors). Exploration only: absence of violations on N generated histories.",
 "property-based testing: stateful history generation + model-based oracle (proptest)","DESIGN.md §3 C01")
chk("C02","exploration",
 "Generated histories compared after every commit (FinishedSession::root, Overlay::root, Nomt::root, after reopen) with a from-scratch reference Merkle-Patricia trie over the model map, written from the specification with blake3/sha2 crates only.",
 "Trusts the independent reference trie (self-tested against hand values and build_trie) and hash collision resistance.",
 "property-based testing: model-based oracle with independent reference trie (proptest)","DESIGN.md §3 C02")
chk("C05","exploration",
 "At every step of generated histories (incl. sessions on uncommitted overlay chains, after reopen, tiny page cache) proofs for present and absent query keys are requested and judged against the model: verification against the session root (nomt verifier and an independent hash chain), confirm_value / confirm_nonexistence verdicts, and equality of siblings/terminal with a reference trie lookup.",
 "Trusts the reference trie and model. Query keys are sampled (bit flips at random depths), not all 2^256.",
 "property-based testing: model-based oracle + reference trie lookup (proptest)","DESIGN.md §3 C05")
chk("C06","exploration",
 "Every generated session commit runs with witnessing on; the witness is replayed by the stateless verifier (path verification, per-key read attestation, verify_update) and checked for completeness against the batch and for agreement with the store's reported root and the reference root.",
 "Trusts reference trie/model. Worker interleavings are whatever the runs produce (sampled).",
 "property-based testing: stateless-verifier replay + completeness oracle (proptest)","DESIGN.md §3 C06")
chk("C09","exploration",
 "Generated histories over commits (sessions, overlay chains), rollback(n), reopen with small log limits and (via hook) 1-3-record rollback segments, judged step by step against a snapshot-stack model: required successes, required failures, exactness of every success, no side effect of any failure, reopenability.",
 "Trusts the model; the hook's segment-size override only changes when segments roll over. Depths between the retained and the total number of commits may go either way (statement leaves it open).",
 "property-based testing: stateful history generation + snapshot-stack model (proptest)","DESIGN.md §3 C09")
chk("C10","exploration",
 "Twin differential: the same generated history on a never-closed store and on a store reopened at generated points with generated configurations; both compared with the model and with each other (root, values, seqn, proofs, hash-table occupancy, commit/rollback outcomes).",
 "Trusts the model; rollback depths in the statement's unspecified region are clamped to the guaranteed depth.",
 "property-based testing: differential (twin store) + model oracle (proptest)","DESIGN.md §3 C10")
chk("C03","fault_enumeration",
 "For generated histories the last operation (session/overlay commit, rollback, reopen) is traced through the I/O hook and process-crash images are synthesised at every event boundary (in-flight writes none/all/random), opened with Nomt::open and judged against the model's pre/post state (root, seqn, all values, proofs, rollback probe, further commit); crashes during the recovery open are enumerated the same way (nested).",
 "Crash points are enumerated exhaustively per generated operation (up to the image budget, evenly strided beyond it), not for all histories. Images are synthesised from a shadow file system fed by the hook; a byte-for-byte shadow-vs-disk comparison at quiescent points guards hook completeness. Page writes are assumed atomic.",
 "fault injection by enumeration of crash points over generated histories (proptest + I/O hook + shadow FS images), model-based oracle","DESIGN.md §3 C03")
chk("C04","fault_enumeration",
 "Same operations as C03, with power-loss images at every event boundary: durable state (fsync coverage tracked per file and per directory) plus admissible parts of the volatile writes (none, all, all-but/only one file class, random prefix/subset choices), incl. power loss during the recovery open; judged against pre/post.",
 "Fault class limited to the one the statement admits (lost subsets of unsynced in-place page writes, page-aligned prefixes of unsynced appends, prefix of directory operations). fsync coverage rule: an fsync makes durable the writes completed before it started.",
 "fault injection by enumeration of power-loss images over generated histories (proptest + I/O hook + shadow FS durability model), model-based oracle","DESIGN.md §3 C04")
chk("C14","fault_enumeration",
 "For generated histories the last commit/rollback is run once to count its mutating file operations and then re-run from a copy of the pre-operation directory with the k-th operation failing (once / persistently, EIO / ENOSPC) for every k (strided above the point budget): the call must return Err (not Ok, not panic, not hang), poison the handle, refuse a changeset prepared earlier, drop cleanly, and the directory must reopen to exactly pre or post.",
 "Faults are injected through the hook before the operation is issued (nothing is written). Fault points are enumerated per generated operation. Hang = no return within 90 s of an operation that normally takes milliseconds. Bucket exhaustion is exercised by a separate generator family (tiny hash tables).",
 "fault injection by enumeration of failing I/O operations over generated histories (proptest + I/O hook), model-based oracle","DESIGN.md §3 C14")
chk("C07","exploration",
 "For generated key sets and sets of distinct terminals, the multi-proof aggregated from honest reference path proofs is compared with the individual verified path proofs and with the truth on every probe key (both query forms), and its update verification with the per-path update verifier and the reference root of the updated set.",
 "Pure nomt-core, no store. Trusts the reference trie. A store-level tier is not included (store-produced proofs are compared with the same reference in C05).",
 "property-based testing: differential (multi-proof vs path proofs) + reference-trie oracle (proptest)","DESIGN.md §3 C07")
chk("C08","exploration",
 "Adversarial proof objects (generated mutations of honest path proofs and multi-proofs, incl. verification-preserving ones) are verified against the true root; every statement or update an accepted object confirms is judged against the key-value set itself.",
 "Assumes collision resistance of blake3/sha2-256. Mutation operators are a generated sample of the object space, biased towards objects that still verify (24% of cases).",
 "property-based testing: mutation-based adversarial generation + ground-truth oracle (proptest)","DESIGN.md §3 C08")
chk("C18","exploration",
 "The same adversarial objects (depths incl. 0/255/256/257/usize::MAX, reordered/duplicated/foreign paths, truncated/extended siblings) are pushed through every verifier entry point under catch_unwind, also against the root the malformed object itself hashes to (recording hasher) so that confirm_* and update verification run on malformed-but-verifying objects; any panic is a violation.",
 "Sizes bounded (<= 24 paths, <= 400 siblings). _with_index forms are called with in-range indices only (out-of-range is a documented panic). Build has debug assertions and overflow checks on.",
 "property-based testing: mutation-based generation with totality oracle (catch_unwind) (proptest)","DESIGN.md §3 C18")
chk("C12","exploration",
 "Several changesets (finished sessions / overlays with reverse deltas) are prepared on one generated base state and committed in generated orders and flavours (blocking, non-blocking, non-blocking while another session is alive, retried), with rollbacks in between; after every rejected or deferred attempt root, seqn, poison flag, all values, the decoded on-disk image and hash-table occupancy are compared with the state before it, and at the end (live or after a reopen) repeated rollback(1) must walk exactly the model's snapshots.",
 "Acceptance rule: an attempt must succeed iff its base root is the current root and nothing was committed since it was prepared; must fail iff the roots differ; in the corner 'root current again only because an intervening commit was rolled back' (the former known finding KF-C12-1, repaired as FX-C12-2) either outcome is permitted but must be exact; pairs of concurrent blocking commits are judged against both serial orders.",
 "property-based testing: generated competing-commit schedules + model/decoder oracle (proptest)","DESIGN.md §3 C12")
chk("C16","exploration",
 "After every step of generated histories the store directory is snapshotted and decoded by an independent decoder written from the documented layouts; structural well-formedness, equality of the decoded key-value multiset with the model, hash-table reachability of every stored merkle page and equality of every reachable node slot with the reference trie (absent pages only where marked elided) are checked.",
 "Trusts the decoder (self-checked by decoding what nomt wrote and by the shadow-vs-disk comparison) and the constants listed under assumptions. Recovered crash images are decoded by the same predicates inside C03/C04 only at their default depth (values/root/proofs), not with the full decoder.",
 "property-based testing: independent on-disk decoder as oracle over generated histories (proptest)","DESIGN.md §3 C16")
chk("C19","exploration",
 "Generated fill / overwrite / empty cycles with thousands of leaves; after every step the decoder computes the exact partition of ln and bbn pages below the bump into live / free-list pages / free entries (any other page is a leak) and compares hash_table_utilization() with the FULL meta bytes on disk.",
 "Partition is exact per generated history; the 'frontier does not keep growing' clause is covered through the partition (a page below the bump is always reusable) rather than by a separate growth bound.",
 "property-based testing: independent on-disk decoder as oracle (allocation partition) over generated histories (proptest)","DESIGN.md §3 C19")
chk("C11","exploration",
 "Generated overlay trees (chains, forks, drops, commits in and out of order, plain commits and rollbacks in between) judged against a model of overlay status and store version: reads/proofs/roots through valid chains, acceptance of SessionParams::overlay exactly for the complete live chain (six kinds of wrong chains probed), acceptance/rejection of overlay commits, no effect of rejected commits / dropped overlays, decoded on-disk state and rollback history after the sequence.",
 "Sessions are never built on stale or broken chains except as probes. In the corner 'parentless overlay whose base root is current again after commit+rollback' (former known finding KF-C12-1, repaired as FX-C12-2) either outcome is permitted but must be exact.",
 "property-based testing: stateful generation of overlay trees + model oracle (proptest)","DESIGN.md §3 C11")
chk("C13","exploration",
 "The same generated history is executed under the 1-worker baseline and generated alternative configurations (workers, I/O workers, warm-up, caches, upper levels, pre-population, buckets/seed, hasher), each also under seeded schedule perturbation at nomt's lock acquisition points; every run is judged against the reference model (roots per commit, witnesses, values, proofs), hence runs agree with each other.",
 "Thread interleavings are sampled, not enumerated: perturbation (yield / sleep at hook points) diversifies schedules reproducibly in distribution only.",
 "property-based testing: differential across configurations + metamorphic schedule perturbation (proptest)","DESIGN.md §3 C13")
chk("C17","fault_enumeration",
 "Every mutating file event (I/O hook) of every commit / rollback of generated histories, from the start of the operation until the fsync of the meta write has completed, is judged against the previous durable image as decoded by the independent decoder right before the operation: writes to ln/bbn only to free-list entries or beyond the old bump, no resize below the bump, no write to the hash-table file, exactly one meta write, rollback segments only grow and are never truncated below / unlinked with a live record. A dedicated adaptive scenario shapes the ln free list around page boundaries of the list itself.",
 "Events are enumerated exhaustively per generated operation (not for all histories). Byte-identical rewrites of a live page are tolerated (they do not alter the old image). Trusts the decoder and the hook's completeness (guarded by the shadow-vs-disk comparison in C03/C04).",
 "fault injection style enumeration of pre-switch-over I/O events over generated histories (proptest + I/O hook trace), decoder-based invariant oracle","DESIGN.md §3 C17")
chk("C15","exploration",
 "Generated thread programs on one handle (1-4 reader threads holding sessions across stamp-set reads and proofs, 1-3 writer threads committing blocking / non-blocking / via overlays, a rollback phase) under seeded schedule perturbation at nomt's lock points: every session must see exactly one version (values, prev_root, proofs), deferred non-blocking commits hand the changeset back, the successful commits form one chain whose fold equals the final state, losers get Err, and nothing hangs.",
 "Interleavings are sampled, not enumerated; the harness does not own nomt's scheduler. Known finding KF-C15-1 (warm-up task starvation when one thread holds two sessions) is excluded from generation and pinned as a replay.",
 "property-based testing: generated concurrent thread programs + version-stamp / linearisation oracle under seeded schedule perturbation (proptest)","DESIGN.md §3 C15")
chk("C20","exploration",
 "Generated scenarios over one directory (1-3 rounds): racing Nomt::open calls from 1-5 threads and 0-3 child processes on an existing store or an absent directory (at most one may win; on an existing store exactly one), open attempts from threads and processes while the winner is alive idle or mid-commit (all must fail; with an idle holder the directory's content, lengths and modification times are unchanged), eight ways the holder ends (drop, drop after an unfinished session with warm-up, after an uncommitted changeset, after an injected failing commit, panic, SIGKILL idle / mid-commit, orderly child exit), then an immediate reopen that must succeed, show an allowed state and accept a commit; the directory is watched through the I/O hook and content stamps for writers that outlive the handle.",
 "Timings are sampled (openers are released together; the OS decides). A creation race that nobody wins (the code's documented TOCTOU) is permitted and counted: no handle existed. Late fsyncs are counted, not judged (they write nothing).",
 "property-based testing: generated multi-thread / multi-process open scenarios + exclusivity, untouched-directory and quiescence oracles (proptest, I/O hook)","DESIGN.md §3 C20")
