#!/bin/bash
# tools/fuzz_stage.sh <ID:C07|C08|C18> <runs-per-job> <jobs> <summary.json>
# Coverage-guided stage (libFuzzer through cargo-fuzz) of the pure-core checks: builds the target from the current
# /repo tree, starts <jobs> libFuzzer processes of <runs-per-job> executions each on a fresh corpus seeded from
# /verif/fuzz/seeds, with only the oracle of <ID> enabled. Prints "VIOLATION property=<ID> replay=<path>" lines and
# exits 1 if a violation was found, 2 on infrastructure problems, 0 otherwise. Writes a JSON summary for the evidence.
id="$1"; runs="$2"; jobs="$3"; summary="$4"
seed=${VERIF_SEED:-1}
cd /verif/harness || exit 2
export CARGO_NET_OFFLINE=true
if ! cargo +nightly fuzz build --fuzz-dir /verif/fuzz -s none core_proofs >/dev/shm/nomt-verif-fuzzbuild.$$.log 2>&1; then
  tail -20 /dev/shm/nomt-verif-fuzzbuild.$$.log >&2; rm -f /dev/shm/nomt-verif-fuzzbuild.$$.log
  echo "fuzz build failed (infrastructure, not a violation)" >&2
  exit 2
fi
rm -f /dev/shm/nomt-verif-fuzzbuild.$$.log
bin=/verif/target/x86_64-unknown-linux-gnu/release/core_proofs
[ -x "$bin" ] || { echo "fuzz binary not found at $bin" >&2; exit 2; }
W=/dev/shm/nomt-verif-fuzz.$$
rm -rf $W; mkdir -p $W/corpus
cp /verif/fuzz/seeds/* $W/corpus/ 2>/dev/null
nseeds=$(ls $W/corpus | wc -l)
cd $W
t0=$(date +%s)
VERIF_FUZZ_ONLY=$id "$bin" corpus -runs=$runs -seed=$seed -max_len=2048 -len_control=0 -jobs=$jobs -workers=$jobs -print_final_stats=1 > $W/driver.log 2>&1
t1=$(date +%s)
execs=$(grep -h "stat::number_of_executed_units" fuzz-*.log 2>/dev/null | awk '{s+=$2} END{print s+0}')
cov=$(grep -h " cov: " fuzz-*.log 2>/dev/null | sed 's/.* cov: \([0-9]*\).*/\1/' | sort -n | tail -1)
ncorp=$(ls $W/corpus | wc -l)
viol=$(grep -h "^VIOLATION property=" fuzz-*.log 2>/dev/null | sort -u)
nviol=$(echo -n "$viol" | grep -c "^VIOLATION")
crashes=$(ls $W/crash-* $W/timeout-* $W/oom-* 2>/dev/null | wc -l)
printf '{"engine":"libFuzzer (cargo-fuzz, target core_proofs, oracle %s only)","jobs":%s,"runs_per_job":%s,"executions":%s,"seed_corpus_files":%s,"final_corpus_files":%s,"max_edge_coverage":%s,"violations":%s,"other_crash_artifacts":%s,"wall_s":%s}\n' \
  "$id" "$jobs" "$runs" "${execs:-0}" "$nseeds" "$ncorp" "${cov:-0}" "$nviol" "$((crashes))" "$((t1-t0))" > "$summary"
rc=0
if [ "$nviol" -gt 0 ]; then
  grep -h -B1 "^VIOLATION property=" fuzz-*.log | grep -v "^--" | sort -u
  rc=1
elif [ "$crashes" -gt 0 ] && ! grep -q "^VIOLATION" fuzz-*.log; then
  # a crash that is not one of our oracle reports (e.g. a timeout or an abort inside the target): keep the input
  mkdir -p /verif/replays/$id/found
  for f in $W/crash-* $W/timeout-* $W/oom-*; do [ -f "$f" ] && cp "$f" /verif/replays/$id/found/; done
  echo "fuzz stage: $crashes crash/timeout artifact(s) without an oracle report, copied to /verif/replays/$id/found (inconclusive)" >&2
  rc=2
fi
cd /verif; rm -rf $W
exit $rc
