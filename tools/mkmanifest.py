#!/usr/bin/env python3
"""Regenerates /verif/MANIFEST.json from the table below (keeps it valid and in one place)."""
import json, subprocess
props=[json.loads(l) for l in open('/verif/properties.jsonl')]
ids=[p['id'] for p in props]
hooks=subprocess.run(['git','-C','/repo','log','--format=%h %s','18225fe..HEAD'],capture_output=True,text=True).stdout.strip().split('\n')
hook_commits=[l.split()[0] for l in hooks if 'verif-hooks' in l]
CHECKS={}
def chk(id,level,text,note,tech,design,thorough=True):
    CHECKS[id]=dict(property_id=id,quick_cmd=f"./run.sh {id} quick",evidence_file=f"/verif/evidence/{id}.json",
        replay_cmd_template=f"./run.sh {id} replay {{path}}",engine="harness",
        level_claimed=dict(category=level,text=text,design_ref=design),level_note=note,technique=tech)
    if thorough: CHECKS[id]['thorough_cmd']=f"./run.sh {id} thorough"
exec(open('/verif/tools/checks_table.py').read())
m={"version":1,
 "setup_cmd":"cd /verif && ./setup.sh",
 "hooks":{"guard":"cargo feature `verif-hooks` of crate nomt (nomt/Cargo.toml)","enable":"the harness crate /verif/harness depends on /repo/nomt by path with features=[\"verif-hooks\"]; every check runs `cargo build --release --offline` first, so nomt is rebuilt from the current working tree",
  "baseline_off_cmd":"cd /repo && cargo nextest run --workspace --no-fail-fast --test-threads 8 --offline","source_commits":hook_commits,"add_only":True},
 "engines":[{"name":"harness","path":"/verif/harness","serves_properties":sorted(CHECKS.keys()),"kind_free_text":"Rust crate: proptest generators + interpreter against nomt and a reference model; process-sharded; I/O hook based crash/power-loss/fault engines; independent on-disk decoder"}],
 "checks":[CHECKS[k] for k in sorted(CHECKS)],
 "not_applicable":[{"property_id":i,"reason":NA.get(i,"check not built yet (work in progress; see DESIGN.md section 3)")} for i in ids if i not in CHECKS],
 "notes":"All checks honour VERIF_SEED (default 1). Exit 0 = held, 1 = VIOLATION line(s), 2 = inconclusive/infrastructure."}
json.dump(m,open('/verif/MANIFEST.json','w'),indent=1)
print("checks:",sorted(CHECKS.keys()))
