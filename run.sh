#!/bin/bash
# run.sh <ID> <quick|thorough|replay> [file]
# Rebuilds the harness (path dependency on /repo => current working tree, hooks on) and runs one check.
cd /verif/harness || exit 2
export CARGO_NET_OFFLINE=true
if ! cargo build --release --offline >/tmp/nomt-verif-build.$$.log 2>&1; then
  tail -30 /tmp/nomt-verif-build.$$.log >&2
  rm -f /tmp/nomt-verif-build.$$.log
  echo "build failed (infrastructure, not a violation)" >&2
  exit 2
fi
rm -f /tmp/nomt-verif-build.$$.log
cd /verif
case "$2" in
  thorough)
    case "$1" in
      C07|C08|C18)
        # coverage-guided stage first (libFuzzer, same oracles); its summary goes into the evidence file
        sum=/dev/shm/nomt-verif-fuzzsum.$$.json
        /verif/tools/fuzz_stage.sh "$1" ${VERIF_FUZZ_RUNS:-150000} ${VERIF_FUZZ_JOBS:-16} $sum; frc=$?
        VERIF_EXTRA_COVERAGE_FILE=$sum /verif/target/release/vcheck run "$1" thorough; rc=$?
        rm -f $sum
        [ $frc -eq 1 ] && exit 1
        [ $rc -ne 0 ] && exit $rc
        exit $frc ;;
    esac
    exec /verif/target/release/vcheck run "$1" "$2" ;;
  quick) exec /verif/target/release/vcheck run "$1" "$2" ;;
  replay) exec /verif/target/release/vcheck replay "$1" "$3" ;;
  *) echo "usage: run.sh <ID> <quick|thorough|replay> [file]" >&2; exit 2 ;;
esac
