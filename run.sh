#!/bin/bash
# run.sh <ID> <quick|thorough|replay> [file]
# Rebuilds the harness (path dependency on /repo => current working tree, hooks on) and runs one check.
cd /verif/harness || exit 2
export CARGO_NET_OFFLINE=true
if ! cargo build --release --offline >/tmp/nomt-verif-build.$$.log 2>&1; then
  tail -30 /tmp/nomt-verif-build.$$.log >&2
  rm -f /tmp/nomt-verif-build.$$.log
  echo "build failed (infrastructure, not a violation)" >&2
  exit 2
fi
rm -f /tmp/nomt-verif-build.$$.log
cd /verif
case "$2" in
  quick|thorough) exec /verif/target/release/vcheck run "$1" "$2" ;;
  replay) exec /verif/target/release/vcheck replay "$1" "$3" ;;
  *) echo "usage: run.sh <ID> <quick|thorough|replay> [file]" >&2; exit 2 ;;
esac
